/-
  C03's abstract core (machine-checked in the design phase, DESIGN.md Appendix D):
  (1) any `minima` conforming to the column-minima contract yields a minimum-cost chain;
  (2) the cost closure of `wrap_optimal_fit` and the strict total monotonicity of its matrix.
  Uses Mathlib tactics only (linarith, nlinarith, ring, split_ifs).
-/
import Mathlib.Tactic.Linarith
import Mathlib.Tactic.Ring
import Mathlib.Tactic.SplitIfs
namespace TW.Opt

section DP
variable (n : Nat) (c : Nat → Nat → Int) (D : Nat → Int) (r : Nat → Nat)

/-- cost of the chain s → x₀ → x₁ → … -/
def chainCost (c : Nat → Nat → Int) : Nat → List Nat → Int
  | _, [] => 0
  | s, x :: xs => c s x + chainCost c x xs

/-- `cuts` is a strictly increasing chain from `s` ending at `j` -/
def Valid : Nat → List Nat → Nat → Prop
  | s, [], j => s = j
  | s, x :: xs, j => s < x ∧ Valid x xs j

structure IsColMinima : Prop where
  d0 : D 0 = 0
  lt : ∀ j, 1 ≤ j → j ≤ n → r j < j
  eq : ∀ j, 1 ≤ j → j ≤ n → D j = D (r j) + c (r j) j
  le : ∀ i j, i < j → j ≤ n → D j ≤ D i + c i j

theorem Valid.le {s : Nat} {xs : List Nat} {j : Nat} (h : Valid s xs j) : s ≤ j := by
  induction xs generalizing s with
  | nil => exact Nat.le_of_eq h
  | cons x xs ih => exact Nat.le_trans (Nat.le_of_lt h.1) (ih h.2)

theorem D_le_chain (h : IsColMinima n c D r) (s : Nat) (xs : List Nat) (j : Nat)
    (hv : Valid s xs j) (hj : j ≤ n) : D j ≤ D s + chainCost c s xs := by
  induction xs generalizing s with
  | nil => simp [Valid] at hv; simp [chainCost, hv]
  | cons x xs ih =>
    have h1 := ih x hv.2
    have h2 := h.le s x hv.1 (Nat.le_trans hv.2.le hj)
    simp only [chainCost]; linarith

/-- back-tracking: the chain of cut points ending at `j` (fuel = j suffices) -/
def backtrack (r : Nat → Nat) : Nat → Nat → List Nat
  | 0, _ => []
  | _ + 1, 0 => []
  | fuel + 1, j + 1 => backtrack r fuel (r (j + 1)) ++ [j + 1]

theorem chainCost_append (s : Nat) (xs : List Nat) (y : Nat) (e : Nat) (hv : Valid s xs e) :
    chainCost c s (xs ++ [y]) = chainCost c s xs + c e y := by
  induction xs generalizing s with
  | nil => simp [Valid] at hv; simp [chainCost, hv]
  | cons x xs ih => simp only [List.cons_append, chainCost, ih x hv.2]; ring

theorem valid_append (s : Nat) (xs : List Nat) (e y : Nat) (hv : Valid s xs e) (hy : e < y) :
    Valid s (xs ++ [y]) y := by
  induction xs generalizing s with
  | nil => simp [Valid] at hv; subst hv; exact ⟨hy, rfl⟩
  | cons x xs ih => exact ⟨hv.1, ih x hv.2⟩

theorem backtrack_spec (h : IsColMinima n c D r) (fuel j : Nat) (hf : j ≤ fuel) (hj : j ≤ n) :
    Valid 0 (backtrack r fuel j) j ∧ chainCost c 0 (backtrack r fuel j) = D j := by
  induction fuel generalizing j with
  | zero =>
    have : j = 0 := by omega
    subst this; simp [backtrack, Valid, chainCost, h.d0]
  | succ fuel ih =>
    cases j with
    | zero => simp [backtrack, Valid, chainCost, h.d0]
    | succ j =>
      have hlt := h.lt (j+1) (by omega) hj
      have := ih (r (j+1)) (by omega) (by omega)
      refine ⟨valid_append _ _ _ _ this.1 hlt, ?_⟩
      rw [backtrack, chainCost_append c 0 _ _ _ this.1, this.2, h.eq (j+1) (by omega) hj]

/-- C03 core: the back-tracked arrangement is a valid chain of minimum cost. -/
theorem backtrack_optimal (h : IsColMinima n c D r) :
    Valid 0 (backtrack r n n) n ∧
    ∀ xs, Valid 0 xs n → chainCost c 0 (backtrack r n n) ≤ chainCost c 0 xs := by
  have hs := backtrack_spec n c D r h n n (Nat.le_refl _) (Nat.le_refl _)
  refine ⟨hs.1, fun xs hv => ?_⟩
  have := D_le_chain n c D r h 0 xs n hv (Nat.le_refl _)
  rw [hs.2]; rw [h.d0] at this; linarith
end DP

/-- per-line width cost, non-last line -/
def hcost (O T lw : Int) : Int := if lw > T then (lw - T) * O else (T - lw) * (T - lw)
/-- per-line width cost, last line (without the short-line term) -/
def ocost (O T lw : Int) : Int := if lw > T then (lw - T) * O else 0

theorem hcost_nonneg {O T lw : Int} (hO : 0 ≤ O) : 0 ≤ hcost O T lw := by
  unfold hcost; split_ifs <;> nlinarith
theorem ocost_nonneg {O T lw : Int} (hO : 0 ≤ O) : 0 ≤ ocost O T lw := by
  unfold ocost; split_ifs <;> nlinarith

theorem h_convex (O T a b d : Int) (hO : 0 ≤ O) (hab : b ≤ a) (hd : 0 ≤ d) :
    hcost O T a - hcost O T b ≤ hcost O T (a + d) - hcost O T (b + d) := by
  unfold hcost; split_ifs <;> nlinarith
theorem o_ge_h (O T a b d : Int) (hO : 0 ≤ O) (hab : b ≤ a) (hd : 0 ≤ d) :
    hcost O T a - hcost O T b ≤ ocost O T (a + d) - ocost O T (b + d) := by
  unfold hcost ocost; split_ifs <;> nlinarith
theorem h_slope (O T b d : Int) (hO : 0 ≤ O) (hd : 0 ≤ d) :
    hcost O T (b + d) ≤ hcost O T b + d * O := by
  unfold hcost; split_ifs <;> nlinarith
theorem o_slope (O T b d : Int) (hO : 0 ≤ O) (hd : 0 ≤ d) :
    ocost O T (b + d) ≤ hcost O T b + d * O := by
  unfold hcost ocost; split_ifs <;> nlinarith
/-- the gap cost is non-increasing while the line fits -/
theorem h_antitone_fit (O T a b : Int) (hab : b ≤ a) (haT : a ≤ T) : hcost O T a ≤ hcost O T b := by
  unfold hcost; split_ifs <;> nlinarith

structure Inst where
  n : Nat
  w : Nat → Int
  ws : Nat → Int
  pen : Nat → Int
  T0 : Int
  T1 : Int
  P : Int
  O : Int
  S : Int
  H : Int
  short : Nat → Bool

namespace Inst
variable (I : Inst)

def W (I : Inst) : Nat → Int
  | 0 => 0
  | k + 1 => W I k + I.w k + I.ws k
/-- right end of a line ending with fragment j-1 (whitespace dropped, penalty added) -/
def x (j : Nat) : Int := I.W j - I.ws (j - 1) + I.pen (j - 1)
def t (i : Nat) : Int := if i = 0 then I.T0 else I.T1
def hy (j : Nat) : Int := if I.pen (j - 1) > 0 then I.H else 0
/-- the closure of optimal_fit.rs:319-368 without the `minima[i].1` term -/
def c (i j : Nat) : Int :=
  I.P + (if j < I.n then hcost I.O (I.t i) (I.x j - I.W i)
         else if I.x j - I.W i > I.t i then (I.x j - I.W i - I.t i) * I.O
         else if i + 1 = j ∧ I.short i then I.S else 0) + I.hy j

structure Hyp : Prop where
  w0 : ∀ k, 0 ≤ I.w k
  ws0 : ∀ k, 0 ≤ I.ws k
  pen0 : ∀ k, 0 ≤ I.pen k
  penNext : ∀ k, k + 1 < I.n → I.pen k ≤ I.w (k + 1)
  P0 : 0 ≤ I.P
  O0 : 0 ≤ I.O
  S0 : 0 ≤ I.S
  H0 : 0 ≤ I.H

variable {I}

theorem W_step_le (h : I.Hyp) (k : Nat) : I.W k ≤ I.W (k + 1) := by
  have := h.w0 k; have := h.ws0 k; simp only [W]; linarith
theorem W_mono (h : I.Hyp) {a b : Nat} (hab : a ≤ b) : I.W a ≤ I.W b := by
  induction b with
  | zero => have : a = 0 := by omega
            subst this; exact le_refl _
  | succ b ih =>
    rcases Nat.lt_or_ge a (b + 1) with h1 | h1
    · exact le_trans (ih (by omega)) (W_step_le h b)
    · have : a = b + 1 := by omega
      subst this; exact le_refl _

theorem x_step_le (h : I.Hyp) (j : Nat) (h1 : 1 ≤ j) (h2 : j + 1 ≤ I.n) : I.x j ≤ I.x (j + 1) := by
  obtain ⟨k, rfl⟩ : ∃ k, j = k + 1 := ⟨j - 1, by omega⟩
  have hp := h.penNext k (by omega)
  have := h.pen0 (k + 1); have := h.ws0 k
  simp only [x, W, Nat.add_sub_cancel]; linarith

theorem x_mono (h : I.Hyp) {a b : Nat} (h1 : 1 ≤ a) (hab : a ≤ b) (hb : b ≤ I.n) : I.x a ≤ I.x b := by
  induction b with
  | zero => omega
  | succ b ih =>
    rcases Nat.lt_or_ge a (b + 1) with h2 | h2
    · exact le_trans (ih (by omega) (by omega)) (x_step_le h b (by omega) hb)
    · have : a = b + 1 := by omega
      subst this; exact le_refl _

theorem hy_nonneg (h : I.Hyp) (j : Nat) : 0 ≤ I.hy j := by
  unfold hy; split_ifs <;> [exact h.H0; exact le_refl _]

theorem c_nonneg (h : I.Hyp) (i j : Nat) : 0 ≤ I.c i j := by
  have h1 := hy_nonneg h j
  have h2 := h.P0
  have h3 : 0 ≤ hcost I.O (I.t i) (I.x j - I.W i) := hcost_nonneg h.O0
  have hO := h.O0; have hS := h.S0
  unfold c; split_ifs <;> nlinarith

/-- the part of `c` that survives when row `i` is not the short-last-line row -/
theorem c_notlast (i j : Nat) (hj : j < I.n) :
    I.c i j = I.P + hcost I.O (I.t i) (I.x j - I.W i) + I.hy j := by
  simp [c, hj]
theorem c_last (i j : Nat) (hj : ¬ j < I.n) (hij : i + 1 ≠ j) :
    I.c i j = I.P + ocost I.O (I.t i) (I.x j - I.W i) + I.hy j := by
  simp only [c, hj, if_false, ocost, hij, false_and]

end Inst

namespace Inst
variable {I : Inst} {D : Nat → Int} {r : Nat → Nat}

theorem D_nonneg (h : I.Hyp) (hm : IsColMinima I.n I.c D r) : ∀ j, j ≤ I.n → 0 ≤ D j := by
  intro j
  induction j using Nat.strong_induction_on with
  | _ j ih =>
    intro hj
    rcases Nat.eq_zero_or_pos j with h0 | hpos
    · subst h0; rw [hm.d0]
    · have hlt := hm.lt j hpos hj
      have := ih (r j) hlt (by omega)
      have hc := c_nonneg h (r j) j
      rw [hm.eq j hpos hj]; linarith

/-- any arrangement of the first `m` fragments (m < n) costs at least the gap the first line
    would leave if it reached as far as `a` -/
theorem D_lower (h : I.Hyp) (hm : IsColMinima I.n I.c D r) :
    ∀ m, 1 ≤ m → m < I.n → ∀ a, I.x m ≤ a → a ≤ I.T0 → hcost I.O I.T0 a ≤ D m := by
  intro m
  induction m using Nat.strong_induction_on with
  | _ m ih =>
    intro h1 hmn a hxa haT
    have hlt := hm.lt m h1 (by omega)
    rw [hm.eq m h1 (by omega)]
    rcases Nat.eq_zero_or_pos (r m) with h0 | hpos
    · rw [h0, hm.d0, c_notlast 0 m hmn]
      have : I.t 0 = I.T0 := by simp [t]
      rw [this]
      have hW : I.W 0 = 0 := rfl
      rw [hW, sub_zero]
      have := h_antitone_fit I.O I.T0 a (I.x m) hxa haT
      have := hy_nonneg h m
      have := h.P0
      linarith
    · have hx : I.x (r m) ≤ a := le_trans (x_mono h hpos (by omega) (by omega)) hxa
      have := ih (r m) hlt hpos (by omega) a hx haT
      have := c_nonneg h (r m) m
      linarith

/-- Column-wise total monotonicity of the online cost matrix above the diagonal (strict form). -/
theorem tm_strict (h : I.Hyp) (hm : IsColMinima I.n I.c D r)
    (i i' j j' : Nat) (h1 : i < i') (h2 : i' < j) (h3 : j < j') (h4 : j' ≤ I.n) :
    D i' + I.c i' j < D i + I.c i j → D i' + I.c i' j' < D i + I.c i j' := by
  have hjn : j < I.n := by omega
  have ht' : I.t i' = I.T1 := by simp [t]; omega
  have hWii : I.W i ≤ I.W i' := W_mono h (by omega)
  have hxx : I.x j ≤ I.x j' := x_mono h (by omega) (by omega) h4
  have hO := h.O0
  rw [c_notlast i' j hjn, c_notlast i j hjn, ht']
  -- abbreviations
  obtain ⟨a, ha⟩ : ∃ a, a = I.x j - I.W i := ⟨_, rfl⟩
  obtain ⟨b, hb⟩ : ∃ b, b = I.x j - I.W i' := ⟨_, rfl⟩
  obtain ⟨d, hd⟩ : ∃ d, d = I.x j' - I.x j := ⟨_, rfl⟩
  have hab : b ≤ a := by linarith
  have hd0 : 0 ≤ d := by linarith
  have e1 : I.x j' - I.W i = a + d := by linarith
  have e2 : I.x j' - I.W i' = b + d := by linarith
  rw [← ha, ← hb]
  intro hprem
  by_cases hlast : j' < I.n
  · rw [c_notlast i' j' hlast, c_notlast i j' hlast, ht', e1, e2]
    by_cases hi : i = 0
    · subst hi
      have ht0 : I.t 0 = I.T0 := by simp [t]
      rw [ht0] at hprem ⊢
      rw [hm.d0] at hprem ⊢
      by_cases hfit : a ≤ I.T0
      · -- premise impossible
        exfalso
        have hW0 : I.W 0 = 0 := rfl
        have hxi' : I.x i' ≤ a := by
          rw [ha, hW0, sub_zero]; exact x_mono h (by omega) (by omega) (by omega)
        have := D_lower h hm i' (by omega) (by omega) a hxi' hfit
        have := hcost_nonneg (O := I.O) (T := I.T1) (lw := b) hO
        have := hy_nonneg h j; have := h.P0
        linarith
      · have hs := h_slope I.O I.T1 b d hO hd0
        have e3 : hcost I.O I.T0 a = (a - I.T0) * I.O := by unfold hcost; simp; intro; omega
        have e4 : hcost I.O I.T0 (a + d) = (a + d - I.T0) * I.O := by
          unfold hcost; simp; intro; omega
        rw [e3] at hprem; rw [e4]
        nlinarith
    · have hti : I.t i = I.T1 := by simp [t, hi]
      rw [hti] at hprem ⊢
      have := h_convex I.O I.T1 a b d hO hab hd0
      linarith
  · have hne1 : i' + 1 ≠ j' := by omega
    have hne2 : i + 1 ≠ j' := by omega
    rw [c_last i' j' hlast hne1, c_last i j' hlast hne2, ht', e1, e2]
    by_cases hi : i = 0
    · subst hi
      have ht0 : I.t 0 = I.T0 := by simp [t]
      rw [ht0] at hprem ⊢
      rw [hm.d0] at hprem ⊢
      by_cases hfit : a ≤ I.T0
      · exfalso
        have hW0 : I.W 0 = 0 := rfl
        have hxi' : I.x i' ≤ a := by
          rw [ha, hW0, sub_zero]; exact x_mono h (by omega) (by omega) (by omega)
        have := D_lower h hm i' (by omega) (by omega) a hxi' hfit
        have := hcost_nonneg (O := I.O) (T := I.T1) (lw := b) hO
        have := hy_nonneg h j; have := h.P0
        linarith
      · have hs := o_slope I.O I.T1 b d hO hd0
        have e3 : hcost I.O I.T0 a = (a - I.T0) * I.O := by unfold hcost; simp; intro; omega
        have e4 : ocost I.O I.T0 (a + d) = (a + d - I.T0) * I.O := by
          unfold ocost; simp; intro; omega
        rw [e3] at hprem; rw [e4]
        nlinarith
    · have hti : I.t i = I.T1 := by simp [t, hi]
      rw [hti] at hprem ⊢
      have := o_ge_h I.O I.T1 a b d hO hab hd0
      linarith

end Inst

end TW.Opt

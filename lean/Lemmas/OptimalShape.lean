/-
  Shape part of the `smawk` contract and the partition theorem for `wrap_optimal_fit`.
-/
import Lemmas.Backtrack
import TextwrapModel.Num
namespace TW

section OptimalFit
variable {α : Type} [CostNum α] {β : Type}

/-- the shape part of the `smawk` contract -/
def RowsShape (rows : List Nat) (n : Nat) : Prop :=
  rows.getD 0 0 = 0 ∧ ∀ j, 1 ≤ j → j ≤ n → rows.getD j 0 < j

/-- `wrap_optimal_fit` never panics on conforming rows; it returns an overflow error or an
    ordered partition into non-empty runs (`[[]]` for no fragments) -/
theorem optimalFit_partition (m : β → Frag α) (pen : Penalties) (frs : List β) (lws : List α)
    (rows : List Nat) (hs : RowsShape rows frs.length) :
    wrapOptimalFitWith m pen frs lws rows = .overflow ∨
    ∃ lines, wrapOptimalFitWith m pen frs lws rows = .ok lines ∧ lines.flatten = frs ∧
      (frs ≠ [] → ∀ l ∈ lines, l ≠ []) ∧ (frs = [] → lines = [[]]) := by
  unfold wrapOptimalFitWith
  simp only
  split
  · exact Or.inl rfl
  · right
    by_cases hn : frs.length = 0
    · have hf : frs = [] := List.eq_nil_of_length_eq_zero hn
      subst hf
      have h0 : rows.getD 0 0 = 0 := hs.1
      simp only [List.getD_eq_getElem?_getD] at h0
      simp [backtrackGo, h0]
    · obtain ⟨segs, h1, h2, h3⟩ := backtrackGo_spec (fun j => rows.getD j 0) frs.length hs.2
        (frs.length + 1) frs.length (by omega) (Nat.le_refl _) (by omega)
      rw [h1]
      refine ⟨_, rfl, ?_, ?_, ?_⟩
      · have := segs_flatten frs h2
        simpa using this
      · intro _ l hl
        simp only [List.mem_map] at hl
        obtain ⟨p, hp, rfl⟩ := hl
        have hb := h2.bounds p (by simpa using hp)
        intro he
        have hlen := congrArg List.length he
        simp only [List.length_take, List.length_drop, List.length_nil] at hlen
        omega
      · intro hf; subst hf; simp at hn

end OptimalFit
end TW

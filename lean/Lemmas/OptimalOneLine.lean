/-
  Optimal-fit keeps fragments that fit the first line on one line (for `nline_penalty > 0`):
  the one-line arrangement is the unique minimum, so any conforming `minima` yields it.
-/
import Lemmas.OptimalBridge
import Lemmas.Width
namespace TW

open TW.Opt

theorem sumTo_fragOf (ws : List Word) : sumTo (ws.map (fragOf (α := Int))) ws.length = (fragSum ws : Int) := by
  induction ws with
  | nil => rfl
  | cons w r ih =>
    simp only [List.map_cons, List.length_cons, sumTo, ih, fragSum_cons, fragOf]
    simp only [ofNat_int]; push_cast; ring

theorem c_ge_P {I : Inst} (h : I.Hyp) (i j : Nat) : I.P ≤ I.c i j := by
  have h1 := Inst.hy_nonneg h j
  have h3 : 0 ≤ hcost I.O (I.t i) (I.x j - I.W i) := hcost_nonneg h.O0
  have hO := h.O0; have hS := h.S0
  unfold Inst.c
  split_ifs <;> nlinarith

theorem segCost_ge {I : Inst} (h : I.Hyp) (segs : List (Nat × Nat)) :
    (segs.length : Int) * I.P ≤ segCost I.c segs := by
  induction segs with
  | nil => simp [segCost]
  | cons p r ih =>
    have := c_ge_P h p.1 p.2
    simp only [segCost, List.map_cons, List.sum_cons, List.length_cons] at ih ⊢
    push_cast; nlinarith

/-- words measured by `fragOf` satisfy the non-negativity part of the hypotheses; with no
    penalties the `penNext` part is trivial -/
theorem hyp_words (p : Penalties) (lws : List Int) (words : List Word) (hnp : NoPen words) :
    (instOf p lws (words.map (fragOf (α := Int)))).Hyp := by
  have nn : ∀ k, 0 ≤ ((words.map (fragOf (α := Int))).getD k fragD).w ∧
      0 ≤ ((words.map (fragOf (α := Int))).getD k fragD).ws ∧
      ((words.map (fragOf (α := Int))).getD k fragD).pen = 0 := by
    intro k
    by_cases hk : k < words.length
    · have : (words.map (fragOf (α := Int))).getD k fragD = fragOf words[k] := by
        simp [List.getD_eq_getElem?_getD, hk]
      rw [this]
      have hp := hnp words[k] (List.getElem_mem hk)
      simp only [fragOf, ofNat_int, hp, blen_nil]
      exact ⟨Int.natCast_nonneg _, Int.natCast_nonneg _, rfl⟩
    · have : (words.map (fragOf (α := Int))).getD k fragD = fragD := by
        simp [List.getD_eq_getElem?_getD, List.getElem?_eq_none (by simpa using Nat.le_of_not_lt hk)]
      rw [this]; simp [fragD]
  have hpen : ∀ k, (instOf p lws (words.map (fragOf (α := Int)))).pen k = 0 := fun k => (nn k).2.2
  refine ⟨fun k => (nn k).1, fun k => (nn k).2.1, fun k => by rw [hpen k],
    ?_, Int.natCast_nonneg _, Int.natCast_nonneg _, Int.natCast_nonneg _, Int.natCast_nonneg _⟩
  intro k _
  rw [hpen k]
  exact (nn (k + 1)).1

end TW

namespace TW
open TW.Opt

theorem W_words (p : Penalties) (lws : List Int) (words : List Word) :
    (instOf p lws (words.map (fragOf (α := Int)))).W words.length = (fragSum words : Int) := by
  rw [instOf_W, W_eq_sumTo p lws _ words.length (by simp)]
  exact sumTo_fragOf words

/-- cost of the one-line arrangement of ≥ 2 penalty-free fragments that fit the first line -/
theorem c_first_all (p : Penalties) (lws : List Int) (words : List Word) (hnp : NoPen words)
    (hn : 2 ≤ words.length) (hfit : (fragSum words : Int) ≤ lws.getD 0 (defaultLw lws)) :
    (instOf p lws (words.map (fragOf (α := Int)))).c 0 words.length = (p.nline : Int) := by
  have hyp := hyp_words p lws words hnp
  have hW := W_words p lws words
  have hn' : (instOf p lws (words.map (fragOf (α := Int)))).n = words.length := by
    show (words.map _).length = _; simp
  have hpen : (instOf p lws (words.map (fragOf (α := Int)))).pen (words.length - 1) = 0 := by
    have := hyp.penNext
    -- every penalty is 0
    have h0 := hyp.pen0 (words.length - 1)
    by_cases hk : words.length - 1 < words.length
    · have : (words.map (fragOf (α := Int))).getD (words.length - 1) fragD = fragOf words[words.length - 1] := by
        simp [List.getD_eq_getElem?_getD, hk]
      show ((words.map (fragOf (α := Int))).getD (words.length - 1) fragD).pen = 0
      rw [this]
      simp [fragOf, hnp words[words.length - 1] (List.getElem_mem hk), ofNat_int]
    · omega
  have hws := hyp.ws0 (words.length - 1)
  have hT : lws.getD 0 (defaultLw lws) ≤ (instOf p lws (words.map (fragOf (α := Int)))).t 0 := by
    show _ ≤ (if (0 : Nat) = 0 then _ else _)
    simp only [if_true]
    show _ ≤ CostNum.max1 (lws.getD 0 (defaultLw lws))
    simp only [CostNum.max1]
    split <;> omega
  have hW0 : (instOf p lws (words.map (fragOf (α := Int)))).W 0 = 0 := rfl
  unfold Inst.c Inst.hy Inst.x
  rw [hn', hW, hpen, hW0]
  have h1 : ¬ words.length < words.length := by omega
  have h2 : ¬ (0 + 1 = words.length ∧ (instOf p lws (words.map (fragOf (α := Int)))).short 0 = true) := by
    intro h; omega
  have h3 : ¬ ((fragSum words : Int) - (instOf p lws (words.map (fragOf (α := Int)))).ws (words.length - 1) + 0 - 0 >
      (instOf p lws (words.map (fragOf (α := Int)))).t 0) := by
    intro h; omega
  simp only [h1, h2, h3, if_false]
  have hP : (instOf p lws (words.map (fragOf (α := Int)))).P = (p.nline : Int) := rfl
  rw [hP]; simp

/-- **optimal-fit keeps what fits on one line**: for `nline_penalty > 0`, penalty-free fragments
    whose total width fits the first line width, and any conforming `minima`, the result is the
    single line holding all fragments -/
theorem wrapAlg_optimal_one_line (mo : MinimaOracle Int) (p : Penalties) (hP : 0 < p.nline)
    (words : List Word) (hw : words ≠ []) (a b : Nat) (hnp : NoPen words) (hfit : fragSum words ≤ a)
    (hmin : IsMinimaRows p [(a : Int), (b : Int)] (words.map fragOf)
      (mo (words.map fragOf) [(a : Int), (b : Int)])) :
    wrapAlg mo (.optimalFit p) words [a, b] = some [words] := by
  obtain ⟨segs, h1, h2, h3⟩ := optimalFit_min (fragOf (α := Int)) p [(a : Int), (b : Int)] (by simp) words hw _ hmin
  have hl : List.map (CostNum.ofNat (α := Int)) [a, b] = [(a : Int), (b : Int)] := rfl
  unfold wrapAlg
  simp only [hl, h1]
  -- the chain has exactly one segment
  have hone : segs = [(0, words.length)] := by
    match segs, h2 with
    | [], h2 =>
      simp only [SegChain] at h2
      exact absurd (List.eq_nil_of_length_eq_zero h2.symm) hw
    | [(x, y)], h2 =>
      obtain ⟨e1, _, e3⟩ := h2
      simp only [SegChain] at e3
      rw [e1, e3]
    | (x, y) :: (u, v) :: rest, h2 =>
      exfalso
      have hyp := hyp_words p [(a : Int), (b : Int)] words hnp
      -- two segments need at least two fragments
      have hlen : 2 ≤ words.length := by
        obtain ⟨e1, e2, e3⟩ := h2
        obtain ⟨f1, f2, f3⟩ := e3
        have := f3.le
        omega
      have hopt := h3 [(0, words.length)] ⟨rfl, by omega, rfl⟩
      have hl2 : ([(a : Int), (b : Int)]).length ≤ 2 := by simp
      rw [arrCost_eq_segCost p _ hl2 _ 0 0 words.length _ (by simpa using h2) (by simp) (by simp),
          arrCost_eq_segCost p _ hl2 _ 0 0 words.length [(0, words.length)] ⟨rfl, by omega, rfl⟩ (by simp) (by simp)] at hopt
      have hge := segCost_ge hyp ((x, y) :: (u, v) :: rest)
      have hc := c_first_all p [(a : Int), (b : Int)] words hnp hlen (by simpa using (by exact_mod_cast hfit : (fragSum words : Int) ≤ a))
      have hPv : (instOf p [(a : Int), (b : Int)] (words.map (fragOf (α := Int)))).P = (p.nline : Int) := rfl
      simp only [segCost, List.map_cons, List.map_nil, List.sum_cons, List.sum_nil, List.length_cons] at hopt hge
      rw [hc] at hopt
      rw [hPv] at hge
      have : (0 : Int) < p.nline := by exact_mod_cast hP
      have hr : (0 : Int) ≤ rest.length := Int.natCast_nonneg _
      push_cast at hge
      nlinarith
  subst hone
  simp

end TW

/-
  `LastOk` for the Unicode separator, relative to one clause of the contract of the external
  break-opportunity routine: no opportunity directly before a space (UAX #14 rule LB7). Under it
  every piece but the first begins with a non-space character, so its word is not empty.
-/
import Lemmas.PipelineFacts
namespace TW

/-- contract clause on the opportunities (byte offsets into the stripped text): the character at
    an opportunity is never a space -/
def OppsNoSpace (stripped : Text) (os : List Nat) : Prop :=
  ∀ a c b, stripped = a ++ c :: b → blen a ∈ os → c ≠ SP

theorem uniGo_head (s : Ansi) (st : Nat) (cur : Text) (opps : List Nat) (rest : Text)
    (h : cur ≠ [] ∨ rest ≠ []) : ∃ x r, uniGo s st cur opps rest = (cur ++ x) :: r := by
  induction rest generalizing s st cur opps with
  | nil =>
    rcases h with h | h
    · exact ⟨[], [], by simp [uniGo, h]⟩
    · exact absurd rfl h
  | cons c cs ih =>
    simp only [uniGo]
    split
    · split
      · exact ⟨[], _, by rw [List.append_nil]⟩
      · obtain ⟨x, r, hx⟩ := ih _ _ (cur ++ [c]) _ (Or.inl (by simp))
        exact ⟨c :: x, r, by rw [hx]; simp⟩
    · obtain ⟨x, r, hx⟩ := ih _ _ (cur ++ [c]) _ (Or.inl (by simp))
      exact ⟨c :: x, r, by rw [hx]; simp⟩

theorem stripFrom_cons (s : Ansi) (c : Char) (cs : Text) :
    stripFrom s (c :: cs) = (if (s.step c).2 then [c] else []) ++ stripFrom (s.step c).1 cs := by
  simp only [stripFrom]; split <;> simp

/-- every piece of the Unicode separator loop after the first begins with a non-space character -/
theorem uniGo_heads (s : Ansi) (st : Nat) (cur : Text) (opps : List Nat) (rest : Text)
    (H : ∀ a c b, stripFrom s rest = a ++ c :: b → (st + blen a) ∈ opps → c ≠ SP) :
    ∀ p ∈ (uniGo s st cur opps rest).tail, ∃ c cs, p = c :: cs ∧ c ≠ SP := by
  induction rest generalizing s st cur opps with
  | nil =>
    simp only [uniGo]
    split <;> simp
  | cons c cs ih =>
    -- the hypothesis for the tail, for any sub-list of the opportunities
    have Htail : ∀ opps' : List Nat, (∀ o ∈ opps', o ∈ opps) →
        ∀ a d b, stripFrom (s.step c).1 cs = a ++ d :: b →
          ((if (s.step c).2 then st + c.utf8Size else st) + blen a) ∈ opps' → d ≠ SP := by
      intro opps' hsub a d b ha hm
      by_cases hv : (s.step c).2 = true
      · apply H (c :: a) d b
        · rw [stripFrom_cons, hv, ha]; simp
        · simp only [hv, if_true] at hm
          simp only [blen_cons]
          have : st + (c.utf8Size + blen a) = st + c.utf8Size + blen a := by omega
          rw [this]; exact hsub _ hm
      · apply H a d b
        · rw [stripFrom_cons]; simp [hv, ha]
        · simp only [hv] at hm
          exact hsub _ (by simpa using hm)
    simp only [uniGo]
    split
    · next o os =>
      split
      · next heq =>
        -- a cut before `c`, met in state `normal`
        simp only [List.tail_cons]
        obtain ⟨x, r, hx⟩ := uniGo_head (Ansi.normal.step c).1
          (if (Ansi.normal.step c).2 then st + c.utf8Size else st) [c] os cs (Or.inl (by simp))
        have hc : c ≠ SP := by
          by_cases hE : c = ESC
          · rw [hE]; decide
          · apply H [] c (stripFrom (Ansi.normal.step c).1 cs)
            · rw [stripFrom_cons]; simp [Ansi.step, hE]
            · simp [heq]
        intro p hp
        rw [hx] at hp
        rcases List.mem_cons.mp hp with rfl | hp
        · exact ⟨c, x, by simp, hc⟩
        · have := ih (Ansi.normal.step c).1 (if (Ansi.normal.step c).2 then st + c.utf8Size else st) [c] os
            (Htail os (fun o ho => by simp [ho]))
          rw [hx] at this
          exact this p (by simpa using hp)
      · exact ih _ _ _ _ (Htail (o :: os) (fun _ h => h))
    · exact ih _ _ _ _ (Htail opps (fun _ h => h))

theorem filterOpps_sub (stripped : Text) (l os : List Nat) (h : filterOpps stripped l = some os) :
    ∀ o ∈ os, o ∈ l := by
  induction l generalizing os with
  | nil => simp [filterOpps] at h; subst h; simp
  | cons x l ih =>
    simp only [filterOpps] at h
    split at h
    · next k r hk hr =>
      simp only [Option.some.injEq] at h
      intro o ho
      rw [← h] at ho
      split at ho
      · rcases List.mem_cons.mp ho with rfl | ho
        · simp
        · exact List.mem_cons_of_mem _ (ih r hr o ho)
      · exact List.mem_cons_of_mem _ (ih r hr o ho)
    · simp at h

/-- under the contract, an empty last word of the Unicode separator has nothing before it -/
theorem findWordsUnicode_first_empty (env : Env) (line : Text)
    (hc : OppsNoSpace (stripAnsi line) (env.opps (stripAnsi line)))
    (ws : List Word) (h : findWordsUnicode env line = some ws) :
    ∀ pre w, ws = pre ++ [w] → w.word = [] → wordsText pre = [] := by
  unfold findWordsUnicode at h
  simp only at h
  split at h
  · next os hos =>
    simp only [Option.some.injEq] at h
    intro pre w hws hw
    by_cases hpre : pre = []
    · subst hpre; rfl
    · exfalso
      have hsub : ∀ o ∈ os, o ∈ env.opps (stripAnsi line) := by
        intro o ho
        unfold usedOpps at hos
        exact (List.mem_filter.mp (filterOpps_sub _ _ _ hos o ho)).1
      have heads := uniGo_heads .normal 0 [] os line (by
        intro a c b ha hm
        simp only [Nat.zero_add] at hm
        exact hc a c b ha (hsub _ hm))
      generalize hP : uniGo .normal 0 [] os line = P at h heads
      -- `w` is the image of the last piece, which is in the tail
      have hne : P ≠ [] := by
        intro he; subst he; rw [← h] at hws; simp at hws
      have hlast : Word.from env.cw (P.getLast hne) = w := by
        have := congrArg List.getLast? hws
        rw [← h, List.getLast?_map, List.getLast?_eq_some_getLast hne] at this
        simpa using this
      have hlen : 2 ≤ P.length := by
        have := congrArg List.length hws
        rw [← h] at this
        simp at this
        have : 0 < pre.length := List.length_pos_iff.mpr hpre
        omega
      have hmem : P.getLast hne ∈ P.tail := by
        cases P with
        | nil => exact absurd rfl hne
        | cons a r =>
          cases r with
          | nil => simp at hlen
          | cons b r' => simp [List.getLast_cons]
      obtain ⟨c, cs, e, hcsp⟩ := heads _ hmem
      rw [← hlast, e] at hw
      exact trimEndSp_ne_nil_of_head c cs hcsp hw
  · simp at h

/-- **Unicode separator, splitter in range, under the contract clause**: the last fragment of
    the pipeline is fine -/
theorem pipeline_lastOk_unicode (env : Env) (o : Opts) (hsep : o.sep = .unicode)
    (hr : SplitterInRange env.isAlnum o.splitter) (line : Text)
    (hc : OppsNoSpace (stripAnsi line) (env.opps (stripAnsi line)))
    (sw : Nat) (ws : List Word) (h : pipeline env o line sw = some ws) : LastOk ws := by
  unfold pipeline at h
  rw [hsep] at h
  simp only [findWords] at h
  split at h
  · simp at h
  · next fw hfw =>
    have hfirst := findWordsUnicode_first_empty env line hc fw hfw
    have hshape : ∀ w ∈ fw, ∃ t, w = Word.from env.cw t := by
      unfold findWordsUnicode at hfw
      simp only at hfw
      split at hfw
      · simp only [Option.some.injEq] at hfw
        intro w hw; rw [← hfw] at hw
        obtain ⟨t, _, rfl⟩ := List.mem_map.mp hw
        exact ⟨t, rfl⟩
      · simp at hfw
    have hfrag : ∀ w ∈ fw, FragOk env.cw w := by
      intro w hw; obtain ⟨t, rfl⟩ := hshape w hw; exact from_fragOk _ t
    have hend : ∀ w ∈ fw, w.word.getLast? ≠ some SP := by
      intro w hw; obtain ⟨t, rfl⟩ := hshape w hw; exact trimEndSp_no_trailing t
    split at h
    · simp at h
    · next sp hsp =>
      have r1 := splitWords_refines env o.splitter hr _ sp hsp
      have s2 := (splitWords_text env o.splitter hr _ sp hfrag hsp).2
      split at h
      · have r2 := breakWords_refines env.cw sw sp s2
        have hl := refinesAll_lastOk _ _ (r1.trans r2) hend hfirst
        split at h
        · simp only [Option.some.injEq] at h; subst h; exact hl
        · simp only [Option.some.injEq] at h; subst h
          exact lastOk_cons_empty _ _ (by simp [Word.from, trimEndSp]) (by simp [Word.from, trimEndSp]) hl
      · simp only [Option.some.injEq] at h; subst h
        exact refinesAll_lastOk _ _ r1 hend hfirst

/-- the Unicode separator fails only if an opportunity is not a char boundary of the stripped text -/
theorem findWordsUnicode_total (env : Env) (line : Text)
    (hb : ∀ o ∈ env.opps (stripAnsi line), o < blen (stripAnsi line) →
      ∃ l r, stripAnsi line = l ++ r ∧ blen l = o) :
    ∃ ws, findWordsUnicode env line = some ws := by
  unfold findWordsUnicode usedOpps
  have key : ∀ l : List Nat, (∀ o ∈ l, ∃ a b, stripAnsi line = a ++ b ∧ blen a = o) →
      ∃ os, filterOpps (stripAnsi line) l = some os := by
    intro l
    induction l with
    | nil => intro _; exact ⟨[], rfl⟩
    | cons o os ih =>
      intro h
      obtain ⟨a, b, e1, e2⟩ := h o (by simp)
      obtain ⟨r, hr⟩ := ih (fun x hx => h x (by simp [hx]))
      have hk : ∃ k, keepOpp (stripAnsi line) o = some k := by
        unfold keepOpp charBefore?
        rw [e1, ← e2, splitBytes?_append]
        exact ⟨_, rfl⟩
      obtain ⟨k, hk⟩ := hk
      exact ⟨if k then o :: r else r, by simp [filterOpps, hk, hr]⟩
  obtain ⟨os, hos⟩ := key ((env.opps (stripAnsi line)).filter (· < blen (stripAnsi line))) (by
    intro o ho
    obtain ⟨h1, h2⟩ := List.mem_filter.mp ho
    exact hb o h1 (by simpa using h2))
  simp only [hos]
  exact ⟨_, rfl⟩

end TW

/-
  From related words to related lines: force-breaking, the two line-breaking algorithms and the
  reassembly loop carry the relation between the coloured run and the visible run.
-/
import Lemmas.Colour2
namespace TW

open TW.C13

section AllRelFacts
variable {α β : Type} {R : α → β → Prop}

theorem AllRel.isEmpty {as : List α} {bs : List β} (h : AllRel R as bs) : as.isEmpty = bs.isEmpty := by
  cases h <;> rfl

theorem AllRel.drop {as : List α} {bs : List β} (h : AllRel R as bs) (n : Nat) :
    AllRel R (as.drop n) (bs.drop n) := by
  induction h generalizing n with
  | nil => simp; exact AllRel.nil
  | cons hab _ ih =>
    cases n with
    | zero => exact AllRel.cons hab (by simpa using ih 0)
    | succ k => simpa using ih k

theorem AllRel.take {as : List α} {bs : List β} (h : AllRel R as bs) (n : Nat) :
    AllRel R (as.take n) (bs.take n) := by
  induction h generalizing n with
  | nil => simp; exact AllRel.nil
  | cons hab _ ih =>
    cases n with
    | zero => simp; exact AllRel.nil
    | succ k => simp only [List.take_succ_cons]; exact AllRel.cons hab (ih k)

theorem AllRel.map_eq {γ : Type} (f : α → γ) (g : β → γ) (hfg : ∀ a b, R a b → f a = g b)
    {as : List α} {bs : List β} (h : AllRel R as bs) : as.map f = bs.map g := by
  induction h with
  | nil => rfl
  | cons hab _ ih => simp [hfg _ _ hab, ih]

theorem AllRel.snoc {as : List α} {bs : List β} {a : α} {b : β} (h : AllRel R as bs) (hab : R a b) :
    AllRel R (as ++ [a]) (bs ++ [b]) := h.append (AllRel.cons hab AllRel.nil)

theorem AllRel.flatten {as : List (List α)} {bs : List (List β)} (h : AllRel (AllRel R) as bs) :
    AllRel R as.flatten bs.flatten := by
  induction h with
  | nil => exact AllRel.nil
  | cons hab _ ih => simpa using hab.append ih

theorem AllRel.getLast {as : List α} {bs : List β} (h : AllRel R as bs) :
    (as.getLast? = none ∧ bs.getLast? = none) ∨
    ∃ a b, as.getLast? = some a ∧ bs.getLast? = some b ∧ R a b ∧ AllRel R as.dropLast bs.dropLast := by
  induction h with
  | nil => left; simp
  | cons hab hrest ih =>
    rename_i a b as' bs'
    right
    rcases ih with ⟨h1, h2⟩ | ⟨x, y, h1, h2, h3, h4⟩
    · have e1 : as' = [] := List.getLast?_eq_none_iff.mp h1
      have e2 : bs' = [] := List.getLast?_eq_none_iff.mp h2
      subst e1; subst e2
      exact ⟨a, b, by simp, by simp, hab, by simp; exact AllRel.nil⟩
    · have n1 : as' ≠ [] := by intro h; subst h; simp at h1
      have n2 : bs' ≠ [] := by intro h; subst h; simp at h2
      refine ⟨x, y, ?_, ?_, h3, ?_⟩
      · cases as' with
        | nil => exact absurd rfl n1
        | cons p q => rw [List.getLast?_cons_cons]; exact h1
      · cases bs' with
        | nil => exact absurd rfl n2
        | cons p q => rw [List.getLast?_cons_cons]; exact h2
      · cases as' with
        | nil => exact absurd rfl n1
        | cons p q =>
          cases bs' with
          | nil => exact absurd rfl n2
          | cons p' q' =>
            simp only [List.dropLast_cons_cons]
            exact AllRel.cons hab h4

end AllRelFacts

/-! ### force-breaking -/

theorem WR.frag {cw : Char → Nat} {w w' : Word} (h : WR cw w w') {α : Type} [CostNum α] :
    fragOf (α := α) w = fragOf w' := by
  obtain ⟨rfl, _⟩ := h
  simp [fragOf, stripW]

theorem WR.width' {cw : Char → Nat} {w w' : Word} (h : WR cw w w') : w'.width = displayWidth cw w'.word := by
  obtain ⟨rfl, _, _, hw⟩ := h
  simp only [stripW, displayWidth_strip]; exact hw

theorem dw_pos_strip_ne_nil (cw : Char → Nat) (t : Text) (h : 0 < displayWidth cw t) : stripAnsi t ≠ [] := by
  intro he
  rw [← displayWidth_strip, he] at h
  simp [displayWidth, dwFrom] at h

theorem breakWords_colour (cw : Char → Nat) (limit : Nat) (ws ws' : List Word) (h : AllRel (WR cw) ws ws') :
    AllRel (WR cw) (breakWords cw limit ws) (breakWords cw limit ws') := by
  induction h with
  | nil => exact AllRel.nil
  | cons hab htl ih =>
    rename_i w w' r r'
    simp only [breakWords]
    apply AllRel.append _ ih
    have hwid : w'.width = w.width := by obtain ⟨rfl, _⟩ := hab; rfl
    rw [hwid]
    split
    · next hlt =>
      obtain ⟨e, hrun, hsp, hw⟩ := hab
      have hvis : stripAnsi w.word ≠ [] := dw_pos_strip_ne_nil cw _ (by rw [← hw]; omega)
      have hcomm := break_strip_commute cw limit w hvis
      rw [← e, ← hcomm]
      -- every piece is related to its strip
      have hnorm := breakWords_normal cw limit [w] (by
        intro x hx; simp only [List.mem_singleton] at hx; subst hx; exact ⟨hrun, hsp⟩)
      have hcached : ∀ p ∈ breakApart cw limit w, p.width = displayWidth cw p.word := by
        have hok := breakGo_ok cw limit w.ws w.pen .normal [] 0 w.word rfl rfl (Or.inl (Nat.zero_le _))
        intro p hp
        have : ∀ (ps : List Word), BreakOK cw limit w.ws w.pen ps → ∀ p ∈ ps, p.width = displayWidth cw p.word := by
          intro ps
          induction ps with
          | nil => intro _ p hp; simp at hp
          | cons a rest ih2 =>
            intro hbo p hp
            cases rest with
            | nil => simp only [List.mem_singleton] at hp; subst hp; exact hbo.1
            | cons b r2 =>
              rcases List.mem_cons.mp hp with rfl | hp
              · exact hbo.1
              · exact ih2 hbo.2.2.2.2.2.2.2.2 p hp
        exact this _ hok p hp
      have hall : ∀ p ∈ breakApart cw limit w, WR cw p (stripW p) := by
        intro p hp
        have hn := hnorm p (by simp [breakWords, hlt, hp])
        exact ⟨rfl, hn.1, hn.2, hcached p hp⟩
      generalize breakApart cw limit w = ps at hall
      induction ps with
      | nil => exact AllRel.nil
      | cons a rest ih3 =>
        exact AllRel.cons (hall a (by simp)) (ih3 (fun p hp => hall p (by simp [hp])))
    · exact AllRel.cons hab AllRel.nil

/-! ### the line-breaking algorithms -/

section Algs
variable {α : Type} [CostNum α]

theorem ffGo_rel {R : Word → Word → Prop} (hR : ∀ a b, R a b → fragOf (α := α) a = fragOf b)
    (lws : List α) (dflt : α) (k : Nat) (cur cur' : List Word) (width : α) (fs fs' : List Word)
    (hc : AllRel R cur cur') (hf : AllRel R fs fs') :
    AllRel (AllRel R) (ffGo (fragOf (α := α)) lws dflt k cur width fs)
      (ffGo (fragOf (α := α)) lws dflt k cur' width fs') := by
  induction hf generalizing k cur cur' width with
  | nil => simp only [ffGo]; exact AllRel.cons hc AllRel.nil
  | cons hab htl ih =>
    rename_i f f' r r'
    simp only [ffGo, hR _ _ hab, hc.isEmpty]
    split
    · exact AllRel.cons hc (ih _ _ _ _ (AllRel.cons hab AllRel.nil))
    · exact ih _ _ _ _ (hc.snoc hab)

/-- optimal-fit uses the fragment list only through the numbers, its length, and for slicing -/
theorem ofWith_rel {R : Word → Word → Prop} (m : Word → Frag α) (p : Penalties) (ws ws' : List Word)
    (lws : List α) (rows : List Nat) (hmap : ws.map m = ws'.map m) (hlen : ws.length = ws'.length)
    (h : AllRel R ws ws') :
    match wrapOptimalFitWith m p ws lws rows, wrapOptimalFitWith m p ws' lws rows with
    | .ok a, .ok b => AllRel (AllRel R) a b
    | .overflow, .overflow => True
    | .panic, .panic => True
    | _, _ => False := by
  unfold wrapOptimalFitWith
  simp only [hmap, hlen]
  by_cases hov : ((dpTable p lws (ws'.map m) (prefixWidths (ws'.map m)) (fun j => rows.getD j 0) ws'.length).any
      fun e => CostNum.isInf e.1) = true
  · simp only [hov, if_true]
  · simp only [hov, Bool.false_eq_true, if_false]
    cases hb : backtrackGo (fun j => rows.getD j 0) (ws'.length + 1) ws'.length with
    | none => simp
    | some segs =>
      simp only
      generalize segs.reverse = sg
      induction sg with
      | nil => exact AllRel.nil
      | cons x xs ih => exact AllRel.cons ((h.drop x.1).take (x.2 - x.1)) ih

theorem wrapAlg_rel {R : Word → Word → Prop} (hR : ∀ a b, R a b → fragOf (α := α) a = fragOf b)
    (mo : MinimaOracle α) (alg : Alg) (ws ws' : List Word) (lws : List Nat) (h : AllRel R ws ws')
    (G : List (List Word)) (hG : wrapAlg mo alg ws lws = some G) :
    ∃ G', wrapAlg mo alg ws' lws = some G' ∧ AllRel (AllRel R) G G' := by
  cases alg with
  | firstFit =>
    simp only [wrapAlg, Option.some.injEq] at hG ⊢
    subst hG
    exact ⟨_, rfl, ffGo_rel hR _ _ 0 [] [] 0 ws ws' AllRel.nil h⟩
  | optimalFit p =>
    have hmap : ws.map (fragOf (α := α)) = ws'.map fragOf := h.map_eq _ _ hR
    have hlen : ws.length = ws'.length := h.length
    simp only [wrapAlg] at hG ⊢
    have key := ofWith_rel (fragOf (α := α)) p ws ws' (lws.map CostNum.ofNat)
      (mo (ws.map fragOf) (lws.map CostNum.ofNat)) hmap hlen h
    rw [← hmap]
    cases h1 : wrapOptimalFitWith (fragOf (α := α)) p ws (lws.map CostNum.ofNat)
        (mo (ws.map fragOf) (lws.map CostNum.ofNat)) with
    | ok a =>
      rw [h1] at hG key
      simp only [Option.some.injEq] at hG; subst hG
      cases h2 : wrapOptimalFitWith (fragOf (α := α)) p ws' (lws.map CostNum.ofNat)
          (mo (ws.map fragOf) (lws.map CostNum.ofNat)) with
      | ok b => rw [h2] at key; exact ⟨b, rfl, key⟩
      | overflow => rw [h2] at key; exact absurd key (by simp)
      | panic => rw [h2] at key; exact absurd key (by simp)
    | overflow => rw [h1] at hG; simp at hG
    | panic => rw [h1] at hG; simp at hG

end Algs

/-! ### reassembly -/

theorem strip_wordsText (cw : Char → Nat) (g g' : List Word) (h : AllRel (WR cw) g g') :
    stripAnsi (wordsText g) = wordsText g' ∧ Ansi.run .normal (wordsText g) = .normal := by
  induction h with
  | nil => simp [stripAnsi, stripFrom, Ansi.run]
  | cons hab htl ih =>
    rename_i w w' r r'
    obtain ⟨e, hrun, hsp, _⟩ := hab
    have hws : Ansi.run .normal (w.word ++ w.ws) = .normal := by rw [run_append, hrun, run_spaces _ hsp]
    refine ⟨?_, ?_⟩
    · simp only [wordsText_cons]
      rw [strip_append_normal _ _ hws, strip_body_spaces _ _ hrun hsp, ih.1, ← e]
      simp [stripW]
    · simp only [wordsText_cons]
      rw [run_append, hws, ih.2]

theorem strip_groupSlice (cw : Char → Nat) (g g' : List Word) (h : AllRel (WR cw) g g') :
    stripAnsi (groupSlice g) = groupSlice g' ∧
      (g.getLast?.map (·.pen)) = (g'.getLast?.map (·.pen)) ∧ (g.getLast?.isNone = g'.getLast?.isNone) := by
  unfold groupSlice
  rcases h.getLast with ⟨h1, h2⟩ | ⟨a, b, h1, h2, h3, h4⟩
  · simp [h1, h2, stripAnsi, stripFrom]
  · simp only [h1, h2, Option.map_some, Option.isNone_some]
    obtain ⟨s1, s2⟩ := strip_wordsText cw _ _ h4
    obtain ⟨e, _, _, _⟩ := h3
    refine ⟨?_, by rw [← e]; simp [stripW], trivial⟩
    rw [strip_append_normal _ _ s2, s1, ← e]
    simp [stripW]

/-- what the caller sees of a line: indent, slice, inserted penalty -/
def LineD.parts (d : LineD) : Text × Text × Text := (d.indent, d.slice, d.pen)

theorem specLines_colour (cw : Char → Nat) (o : Opts) (G G' : List (List Word)) (idx idx' n : Nat)
    (h : AllRel (AllRel (WR cw)) G G') :
    (specLines o G idx n).map (fun d => (d.indent, stripAnsi d.slice, d.pen)) =
      (specLines o G' idx' n).map LineD.parts := by
  induction h generalizing idx idx' n with
  | nil => rfl
  | cons hab htl ih =>
    rename_i g g' r r'
    obtain ⟨s1, s2, s3⟩ := strip_groupSlice cw g g' hab
    simp only [specLines]
    cases hl : g.getLast? with
    | none =>
      have hl' : g'.getLast? = none := by
        rw [hl] at s3; simpa using s3.symm
      simp only [hl', List.map_cons, LineD.parts]
      rw [ih idx idx' (n + 1)]
      simp [stripAnsi, stripFrom, LineD.parts]
    | some last =>
      cases hl' : g'.getLast? with
      | none => rw [hl, hl'] at s3; simp at s3
      | some last' =>
        simp only [List.map_cons, LineD.parts]
        rw [ih (idx + blen (wordsText g)) (idx' + blen (wordsText g')) (n + 1)]
        rw [hl, hl'] at s2
        simp only [Option.map_some, Option.some.injEq] at s2
        simp [s1, s2, LineD.parts]

end TW

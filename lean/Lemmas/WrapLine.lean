/-
  `wrap_single_line` / `wrap_single_line_slow_path` and the paragraph loop of `wrap`.
-/
import Lemmas.Reassemble
import Lemmas.OptimalShape
import Lemmas.FirstFit
import Lemmas.Split
namespace TW

section
variable {α : Type} [CostNum α]

/-- assumed of the external column-minima routine: the shape part of the `smawk` contract -/
def MoShape (mo : MinimaOracle α) : Prop := ∀ frs lws, RowsShape (mo frs lws) frs.length

/-- both algorithms hand back an ordered partition of the fragments -/
theorem wrapAlg_partition (mo : MinimaOracle α) (hmo : MoShape mo) (alg : Alg) (words : List Word)
    (lws : List Nat) (groups : List (List Word)) (h : wrapAlg mo alg words lws = some groups) :
    groups.flatten = words ∧ groups ≠ [] ∧ (words ≠ [] → ∀ g ∈ groups, g ≠ []) ∧
      (words = [] → groups = [[]]) := by
  cases alg with
  | firstFit =>
    simp only [wrapAlg, Option.some.injEq] at h
    subst h
    refine ⟨by simp [wrapFirstFit, ffGo_flatten], ?_, ?_, ?_⟩
    · obtain ⟨x, r, hx⟩ := ffGo_head (fragOf (α := α)) (lws.map CostNum.ofNat) (defaultLw (lws.map CostNum.ofNat)) 0 [] 0 words
      simp [wrapFirstFit, hx]
    · intro hne; exact ffGo_nonempty _ _ _ 0 [] 0 words (Or.inr hne)
    · intro he; subst he; simp [wrapFirstFit, ffGo]
  | optimalFit p =>
    simp only [wrapAlg] at h
    have hshape := hmo (words.map fragOf) (lws.map CostNum.ofNat)
    rw [List.length_map] at hshape
    rcases optimalFit_partition (fragOf (α := α)) p words (lws.map CostNum.ofNat) _ hshape with ho | ⟨ls, h1, h2, h3, h4⟩
    · rw [ho] at h; simp at h
    · rw [h1] at h
      simp only [Option.some.injEq] at h; subst h
      refine ⟨h2, ?_, h3, h4⟩
      intro he; subst he
      simp at h2; subst h2
      have := h4 rfl
      simp at this

/-- the slow path: its descriptors are `specLines` of an ordered partition of a contiguous
    fragment list of the line -/
theorem slow_spec (env : Env) (mo : MinimaOracle α) (hmo : MoShape mo) (o : Opts)
    (hr : SplitterInRange env.isAlnum o.splitter) (line : Text) (nPrev : Nat) (ds : List LineD)
    (h : wrapSingleLineSlow env mo o line nPrev = some ds) :
    ∃ groups : List (List Word), ds = specLines o groups 0 nPrev ∧ wordsText groups.flatten = line ∧
      groups ≠ [] ∧ (∀ g ∈ groups, ∀ w ∈ g, FragOk env.cw w) := by
  unfold wrapSingleLineSlow at h
  simp only at h
  split at h
  · simp at h
  · next words hp =>
    obtain ⟨c1, c2⟩ := pipeline_contig env o hr line _ words hp
    split at h
    · simp at h
    · next groups hg =>
      obtain ⟨p1, p2, _, _⟩ := wrapAlg_partition mo hmo o.alg words _ groups hg
      rw [reassemble_eq_spec o line [] groups 0 nPrev (by simp [p1, c1]) rfl] at h
      simp only [Option.some.injEq] at h
      refine ⟨groups, h.symm, by rw [p1, c1], p2, ?_⟩
      intro g hg w hw
      exact c2 w (by rw [← p1]; exact List.mem_flatten.mpr ⟨g, hg, hw⟩)

/-- what one paragraph's lines satisfy -/
structure LineSpec (o : Opts) (line : Text) (nPrev : Nat) (ds : List LineD) : Prop where
  nonempty : ds ≠ []
  decomp : ∃ gaps : List Text, gaps.length = ds.length ∧ Decomp 0 (ds.zip gaps) line ∧
    ∀ g ∈ gaps, ∀ c ∈ g, c = SP
  indent : ∀ k (d : LineD), ds[k]? = some d →
    d.indent = (if nPrev + k = 0 then o.initialIndent else o.subsequentIndent) ∧
    d.borrowed = (d.indent.isEmpty && d.pen.isEmpty)

theorem groupGap_spaces (cw : Char → Nat) (g : List Word) (h : ∀ w ∈ g, FragOk cw w) :
    ∀ c ∈ groupGap g, c = SP := by
  unfold groupGap
  cases hl : g.getLast? with
  | none => simp
  | some last => exact (h last (List.mem_of_getLast? hl)).1

theorem wrapSingleLine_spec (env : Env) (mo : MinimaOracle α) (hmo : MoShape mo) (o : Opts)
    (hr : SplitterInRange env.isAlnum o.splitter) (line : Text) (nPrev : Nat) (ds : List LineD)
    (h : wrapSingleLine env mo o line nPrev = some ds) : LineSpec o line nPrev ds := by
  unfold wrapSingleLine at h
  by_cases hc : blen line < o.width ∧
      (if nPrev = 0 then o.initialIndent else o.subsequentIndent).isEmpty = true
  · -- the shortcut
    rw [if_pos hc] at h
    simp only [Option.some.injEq] at h
    subst h
    have hind : (if nPrev = 0 then o.initialIndent else o.subsequentIndent) = [] := by
      simpa using hc.2
    refine ⟨by simp, ⟨[line.drop (trimEndSp line).length], rfl, ?_, ?_⟩, ?_⟩
    · simp only [List.zip_cons_cons, List.zip_nil_right, Decomp, true_and]
      exact ⟨[], by simp [trimEndSp_append_rest], rfl⟩
    · intro g hg c hc'
      simp only [List.mem_singleton] at hg; subst hg
      exact trimEndSp_rest_spaces line c hc'
    · intro k d hk
      cases k with
      | zero =>
        simp only [List.getElem?_cons_zero, Option.some.injEq] at hk; subst hk
        simp only [Nat.add_zero]
        rw [hind]; simp
      | succ k => simp at hk
  · rw [if_neg hc] at h
    obtain ⟨groups, rfl, h2, h3, h4⟩ := slow_spec env mo hmo o hr line nPrev ds h
    refine ⟨?_, ⟨groups.map groupGap, by simp [specLines_length], ?_, ?_⟩, ?_⟩
    · intro he
      have := congrArg List.length he
      rw [specLines_length] at this
      exact h3 (List.eq_nil_of_length_eq_zero (by simpa using this))
    · rw [← h2]; exact specLines_decomp o groups 0 nPrev
    · intro g hg
      obtain ⟨g0, hg0, rfl⟩ := List.mem_map.mp hg
      exact groupGap_spaces env.cw g0 (h4 g0 hg0)
    · exact specLines_indent o groups 0 nPrev

end
end TW

/-
  The shape of `wrap` on a paragraph of single-space separated words (ASCII separator, no split
  points in the words, `break_words` off): every line is its indent followed by some of the
  words joined by single spaces, and the bodies joined by single spaces give the paragraph back.
  This is the `fill` half of the `unfill ∘ fill` round trip.
-/
import Lemmas.WrapLine
import Lemmas.InplaceWrap
import Lemmas.UnfillLines
namespace TW

/-- a word of the paragraph: non-empty, no space, no line break characters, and it does not
    begin with a prefix character -/
def WordOk (w : Text) : Prop :=
  (∃ c r, w = c :: r ∧ isPrefixChar c = false) ∧ SP ∉ w ∧ LF ∉ w ∧ CR ∉ w

theorem WordOk.ne_nil {w : Text} (h : WordOk w) : w ≠ [] := by
  obtain ⟨⟨c, r, rfl, _⟩, _⟩ := h; simp

/-! ### the ASCII separator on single-spaced words -/

theorem asciiGo_word (cur w rest : Text) (hw : SP ∉ w) :
    asciiGo cur false (w ++ rest) = asciiGo (cur ++ w) false rest := by
  induction w generalizing cur with
  | nil => simp
  | cons c cs ih =>
    have hc : c ≠ SP := fun e => hw (by simp [e])
    have hcs : SP ∉ cs := fun e => hw (by simp [e])
    have hb : (c == SP) = false := by simpa using hc
    simp only [List.cons_append, asciiGo, Bool.false_and, Bool.false_eq_true, if_false, hb]
    rw [ih _ hcs]
    simp

/-- the pieces: every word but the last keeps its single space -/
def spaced : List Text → List Text
  | [] => []
  | [w] => [w]
  | w :: b :: r => (w ++ [SP]) :: spaced (b :: r)

theorem joinWith_cons_head (sep : Text) (d : Char) (a : Text) (r : List Text) :
    joinWith sep ((d :: a) :: r) = d :: joinWith sep (a :: r) := by
  cases r <;> simp [joinWith]

theorem asciiGo_join (cur w : Text) (r : List Text) (hw : WordOk w) (hr : ∀ x ∈ r, WordOk x) :
    asciiGo cur false (joinWith [SP] (w :: r)) = spaced ((cur ++ w) :: r) := by
  induction r generalizing cur w with
  | nil =>
    have := asciiGo_word cur w [] hw.2.1
    simp only [List.append_nil] at this
    simp only [joinWith, this, asciiGo, spaced]
    have : (cur ++ w).isEmpty = false := by
      have := hw.ne_nil
      cases w <;> simp_all
    simp [this]
  | cons w2 r' ih =>
    have hw2 := hr w2 (by simp)
    obtain ⟨⟨d, w2', rfl, _⟩, hsp2, _, _⟩ := hw2
    have hd : d ≠ SP := fun e => hsp2 (by simp [e])
    have hdb : (d != SP) = true := by simpa using hd
    have hdb2 : (d == SP) = false := by simpa using hd
    rw [joinWith_cons_cons]
    have e1 : w ++ [SP] ++ joinWith [SP] ((d :: w2') :: r') = w ++ (SP :: d :: joinWith [SP] (w2' :: r')) := by
      rw [joinWith_cons_head]; simp
    rw [e1, asciiGo_word cur w _ hw.2.1]
    simp only [asciiGo, Bool.false_and, Bool.false_eq_true, if_false, beq_self_eq_true, Bool.true_and, hdb, if_true]
    have ih' := ih [] (d :: w2') (hr (d :: w2') (by simp)) (fun x hx => hr x (by simp [hx]))
    rw [joinWith_cons_head] at ih'
    simp only [asciiGo, Bool.false_and, Bool.false_eq_true, if_false, hdb2, List.nil_append] at ih'
    rw [ih']
    simp [spaced]

/-- a `Word` without penalty whose cached width is the display width of its text -/
def mkWord (cw : Char → Nat) (w sp : Text) : Word :=
  { word := w, ws := sp, pen := [], width := displayWidth cw w }

def mkWords (cw : Char → Nat) : List Text → List Word
  | [] => []
  | [w] => [mkWord cw w []]
  | w :: b :: r => mkWord cw w [SP] :: mkWords cw (b :: r)

theorem getLast_ne_SP (w : Text) (h : SP ∉ w) : w.getLast? ≠ some SP :=
  fun hl => h (List.mem_of_getLast? hl)

theorem from_last (cw : Char → Nat) (w : Text) (h : SP ∉ w) : Word.from cw w = mkWord cw w [] := by
  unfold Word.from mkWord
  simp only [trimEndSp_id' w (getLast_ne_SP w h)]
  simp

theorem from_spaced (cw : Char → Nat) (w : Text) (h : SP ∉ w) : Word.from cw (w ++ [SP]) = mkWord cw w [SP] := by
  unfold Word.from mkWord
  have : trimEndSp (w ++ [SP]) = w := by
    rw [trimEndSp_append_spaces' w [SP] (by simp), trimEndSp_id' w (getLast_ne_SP w h)]
  simp only [this]
  simp

theorem map_from_spaced (cw : Char → Nat) (ws : List Text) (h : ∀ w ∈ ws, SP ∉ w) :
    (spaced ws).map (Word.from cw) = mkWords cw ws := by
  induction ws with
  | nil => rfl
  | cons a r ih =>
    cases r with
    | nil => simp [spaced, mkWords, from_last cw a (h a (by simp))]
    | cons b r' =>
      simp only [spaced, mkWords, List.map_cons, from_spaced cw a (h a (by simp))]
      rw [ih (fun w hw => h w (by simp [hw]))]

theorem findWordsAscii_join (cw : Char → Nat) (ws : List Text) (hne : ws ≠ []) (hws : ∀ w ∈ ws, WordOk w) :
    findWordsAscii cw (joinWith [SP] ws) = mkWords cw ws := by
  unfold findWordsAscii
  cases ws with
  | nil => exact absurd rfl hne
  | cons w r =>
    rw [asciiGo_join [] w r (hws w (by simp)) (fun x hx => hws x (by simp [hx]))]
    simp only [List.nil_append]
    exact map_from_spaced cw (w :: r) (fun x hx => (hws x hx).2.1)

theorem mkWords_mem (cw : Char → Nat) (ws : List Text) :
    ∀ W ∈ mkWords cw ws, ∃ w ∈ ws, W.word = w ∧ (W.ws = [] ∨ W.ws = [SP]) ∧ W.pen = [] ∧
      W.width = displayWidth cw w := by
  induction ws with
  | nil => simp [mkWords]
  | cons a r ih =>
    cases r with
    | nil => intro W hW; simp [mkWords] at hW; subst hW; exact ⟨a, by simp, rfl, Or.inl rfl, rfl, rfl⟩
    | cons b r' =>
      intro W hW
      simp only [mkWords, List.mem_cons] at hW
      rcases hW with rfl | hW
      · exact ⟨a, by simp, rfl, Or.inr rfl, rfl, rfl⟩
      · obtain ⟨w, hw, h⟩ := ih W (by simpa [mkWords] using hW)
        exact ⟨w, by simp [hw], h⟩

theorem wordsText_mkWords (cw : Char → Nat) (ws : List Text) : wordsText (mkWords cw ws) = joinWith [SP] ws := by
  induction ws with
  | nil => rfl
  | cons a r ih =>
    cases r with
    | nil => simp [mkWords, mkWord, joinWith]
    | cons b r' =>
      rw [joinWith_cons_cons]
      simp only [mkWords, wordsText_cons] at ih ⊢
      rw [ih]; simp [mkWord]

/-! ### the pipeline -/

theorem sliceFrom?_zero (t : Text) : sliceFrom? t 0 = some t := by
  have := sliceFrom?_append [] t
  simpa using this

theorem splitWords_nopoints (env : Env) (sp : Splitter) (Ws : List Word)
    (h : ∀ W ∈ Ws, sp.points env.isAlnum W.word = [] ∧ W.width = displayWidth env.cw W.word) :
    splitWords env sp Ws = some Ws := by
  induction Ws with
  | nil => rfl
  | cons W r ih =>
    obtain ⟨h1, h2⟩ := h W (by simp)
    simp only [splitWords, h1, splitOne, sliceFrom?_zero, ih (fun x hx => h x (by simp [hx]))]
    simp only [or_true, if_true]
    have : ({ word := W.word, ws := W.ws, pen := W.pen, width := displayWidth env.cw W.word } : Word) = W := by
      cases W; simp_all
    simp [this]

theorem pipeline_words (env : Env) (o : Opts) (hsep : o.sep = .ascii) (hbw : o.breakWords = false)
    (ws : List Text) (hne : ws ≠ []) (hws : ∀ w ∈ ws, WordOk w)
    (hpts : ∀ w ∈ ws, o.splitter.points env.isAlnum w = []) (sw : Nat) :
    pipeline env o (joinWith [SP] ws) sw = some (mkWords env.cw ws) := by
  unfold pipeline
  simp only [hsep, findWords, findWordsAscii_join env.cw ws hne hws]
  rw [splitWords_nopoints env o.splitter (mkWords env.cw ws)]
  · simp [hbw]
  · intro W hW
    obtain ⟨w, hw, e1, _, _, e4⟩ := mkWords_mem env.cw ws W hW
    exact ⟨by rw [e1]; exact hpts w hw, by rw [e4, e1]⟩

/-! ### groups of single-spaced words -/

/-- every word but the last carries exactly one space, the last none -/
def SpacedL : List Word → Prop
  | [] => True
  | [x] => x.ws = []
  | x :: y :: r => x.ws = [SP] ∧ SpacedL (y :: r)

theorem spacedL_mkWords (cw : Char → Nat) (ws : List Text) : SpacedL (mkWords cw ws) := by
  induction ws with
  | nil => trivial
  | cons a r ih =>
    cases r with
    | nil => simp [mkWords, SpacedL, mkWord]
    | cons b r' =>
      cases r' with
      | nil => simp [mkWords, SpacedL, mkWord]
      | cons c r'' =>
        simp only [mkWords, SpacedL] at ih ⊢
        exact ⟨rfl, ih⟩

theorem SpacedL.suffix (A B : List Word) (h : SpacedL (A ++ B)) : SpacedL B := by
  induction A with
  | nil => exact h
  | cons a A' ih =>
    cases hAB : A' ++ B with
    | nil =>
      have : B = [] := by
        cases A' <;> simp_all
      subst this; trivial
    | cons y r =>
      rw [List.cons_append, hAB] at h
      exact ih (by rw [hAB]; exact h.2)

theorem SpacedL.last_ws (g' : List Word) (last : Word) (post : List Word)
    (h : SpacedL (g' ++ last :: post)) : last.ws = if post = [] then [] else [SP] := by
  have := SpacedL.suffix g' (last :: post) h
  cases post with
  | nil => simpa [SpacedL] using this
  | cons y r => simpa [SpacedL] using this.1

theorem groupGap_of_spaced (g : List Word) (hg : g ≠ []) (post : List Word) (h : SpacedL (g ++ post)) :
    groupGap g = if post = [] then [] else [SP] := by
  unfold groupGap
  cases hl : g.getLast? with
  | none => exact absurd (List.getLast?_eq_none_iff.mp hl) hg
  | some last =>
    obtain ⟨g', rfl⟩ := List.getLast?_eq_some_iff.mp hl
    simp only
    apply SpacedL.last_ws g' last post
    simpa using h

/-- the slices of the groups joined by single spaces give the text of all words -/
theorem join_groupSlices (G : List (List Word)) (hne : G ≠ []) (hg : ∀ g ∈ G, g ≠ [])
    (h : SpacedL G.flatten) : joinWith [SP] (G.map groupSlice) = wordsText G.flatten := by
  induction G with
  | nil => exact absurd rfl hne
  | cons g r ih =>
    cases r with
    | nil =>
      simp only [List.map_cons, List.map_nil, joinWith, List.flatten_cons, List.flatten_nil, List.append_nil]
      rw [group_text g, groupGap_of_spaced g (hg g (by simp)) [] (by simpa using h)]
      simp
    | cons g2 r' =>
      have hpost : (g2 :: r').flatten ≠ [] := by
        have := hg g2 (by simp)
        cases g2 <;> simp_all
      simp only [List.map_cons, List.flatten_cons] at ih ⊢
      have e : wordsText (g ++ (g2 ++ r'.flatten)) =
          groupSlice g ++ [SP] ++ wordsText (g2 ++ r'.flatten) := by
        rw [wordsText_append, group_text g, groupGap_of_spaced g (hg g (by simp)) _ (by simpa using h)]
        simp only [List.flatten_cons] at hpost
        simp [hpost]
      rw [joinWith_cons_cons, ih (by simp) (fun x hx => hg x (by simp [hx]))
        (SpacedL.suffix g _ (by simpa using h)), e]

/-- the slice of a non-empty group of such words is a line body -/
theorem groupSlice_bodyOk (cw : Char → Nat) (ws : List Text) (hws : ∀ w ∈ ws, WordOk w)
    (g : List Word) (hg : g ≠ []) (hsub : ∀ W ∈ g, W ∈ mkWords cw ws) : BodyOk (groupSlice g) := by
  have hW : ∀ W ∈ g, WordOk W.word ∧ (W.ws = [] ∨ W.ws = [SP]) := by
    intro W hWg
    obtain ⟨w, hw, e1, e2, _, _⟩ := mkWords_mem cw ws W (hsub W hWg)
    exact ⟨by rw [e1]; exact hws w hw, e2⟩
  have hchars : ∀ c ∈ wordsText g, c = SP ∨ ∃ W ∈ g, c ∈ W.word := by
    intro c hc
    simp only [wordsText, List.mem_flatten, List.mem_map] at hc
    obtain ⟨t, ⟨W, hWg, rfl⟩, hct⟩ := hc
    simp only [Word.text, List.mem_append] at hct
    rcases hct with h | h
    · exact Or.inr ⟨W, hWg, h⟩
    · rcases (hW W hWg).2 with e | e <;> rw [e] at h <;> simp at h
      exact Or.inl h
  have hsl : ∀ c ∈ groupSlice g, c ∈ wordsText g := by
    intro c hc; rw [group_text g]; exact List.mem_append_left _ hc
  refine ⟨?_, ?_, ?_⟩
  · -- the head
    cases g with
    | nil => exact absurd rfl hg
    | cons x r =>
      obtain ⟨⟨c, t, hx, hc⟩, _⟩ := (hW x (by simp)).1
      unfold groupSlice
      cases r with
      | nil => simp [hx, hc]
      | cons y r' =>
        cases hl : (x :: y :: r').getLast? with
        | none => simp at hl
        | some last =>
          simp only [List.dropLast_cons_cons, wordsText_cons, hx, List.cons_append]
          exact ⟨c, _, rfl, hc⟩
  · intro h
    rcases hchars LF (hsl LF h) with h | ⟨W, hWg, h⟩
    · exact absurd h (by decide)
    · exact (hW W hWg).1.2.2.1 h
  · intro h
    rcases hchars CR (hsl CR h) with h | ⟨W, hWg, h⟩
    · exact absurd h (by decide)
    · exact (hW W hWg).1.2.2.2 h

theorem group_pen_nil (cw : Char → Nat) (ws : List Text) (g : List Word)
    (hsub : ∀ W ∈ g, W ∈ mkWords cw ws) : ∀ last, g.getLast? = some last → last.pen = [] := by
  intro last hl
  obtain ⟨_, _, _, _, e, _⟩ := mkWords_mem cw ws last (hsub last (List.mem_of_getLast? hl))
  exact e

/-- the rendered lines: indent followed by the group's slice -/
def renderLines (o : Opts) : List (List Word) → Nat → List Text
  | [], _ => []
  | g :: r, n => ((if n = 0 then o.initialIndent else o.subsequentIndent) ++ groupSlice g) :: renderLines o r (n + 1)

theorem renderLines_succ (o : Opts) (G : List (List Word)) (n : Nat) :
    renderLines o G (n + 1) = G.map fun g => o.subsequentIndent ++ groupSlice g := by
  induction G generalizing n with
  | nil => rfl
  | cons g r ih => simp [renderLines, ih]

/-- the rendered lines of `specLines` for groups without penalties -/
theorem specLines_render (o : Opts) (G : List (List Word)) (idx n : Nat)
    (hpen : ∀ g ∈ G, ∀ last, g.getLast? = some last → last.pen = []) :
    (specLines o G idx n).map LineD.render = renderLines o G n := by
  induction G generalizing idx n with
  | nil => rfl
  | cons g r ih =>
    simp only [specLines, renderLines]
    cases hl : g.getLast? with
    | none =>
      have : g = [] := List.getLast?_eq_none_iff.mp hl
      subst this
      simp only [List.map_cons, LineD.render]
      rw [ih idx (n + 1) (fun x hx => hpen x (by simp [hx]))]
      simp [groupSlice]
    | some last =>
      simp only [List.map_cons, LineD.render, hpen g (by simp) last hl, List.append_nil]
      rw [ih _ (n + 1) (fun x hx => hpen x (by simp [hx]))]

end TW

/-
  Lemmas about `Word::from`, the ASCII separator loop and the Unicode separator loop.
-/
import TextwrapModel.FindWords
import Lemmas.Ansi
namespace TW

/-! ### `trim_end_matches(' ')` and `Word::from` -/

theorem trimEndSp_cons (c : Char) (cs : Text) :
    trimEndSp (c :: cs) = if trimEndSp cs = [] ∧ c = SP then [] else c :: trimEndSp cs := by
  simp only [trimEndSp]
  split
  · next h => rw [h]; by_cases hc : c = SP <;> simp [hc]
  · next r hr =>
    have : trimEndSp cs ≠ [] := by intro h; exact hr h
    simp [this]

theorem trimEndSp_prefix (t : Text) : trimEndSp t <+: t := by
  induction t with
  | nil => simp [trimEndSp]
  | cons c cs ih =>
    rw [trimEndSp_cons]
    split
    · simp
    · exact List.cons_prefix_cons.mpr ⟨rfl, ih⟩

/-- what `trim_end_matches(' ')` removes is a run of spaces -/
theorem trimEndSp_rest_spaces (t : Text) : ∀ c ∈ t.drop (trimEndSp t).length, c = SP := by
  induction t with
  | nil => simp [trimEndSp]
  | cons c cs ih =>
    rw [trimEndSp_cons]
    split
    · next h =>
      intro d hd
      simp only [List.length_nil, List.drop_zero, List.mem_cons] at hd
      rcases hd with rfl | hd
      · exact h.2
      · have := ih d; rw [h.1] at this; exact this (by simpa using hd)
    · simpa using ih

theorem trimEndSp_append_rest (t : Text) : trimEndSp t ++ t.drop (trimEndSp t).length = t := by
  obtain ⟨r, hr⟩ := trimEndSp_prefix t
  conv => rhs; rw [← hr]
  congr 1
  conv => lhs; arg 2; rw [← hr]
  simp

/-- the trimmed text does not end in a space -/
theorem trimEndSp_no_trailing (t : Text) : (trimEndSp t).getLast? ≠ some SP := by
  induction t with
  | nil => simp [trimEndSp]
  | cons c cs ih =>
    rw [trimEndSp_cons]
    split
    · simp
    · next h =>
      cases hr : trimEndSp cs with
      | nil =>
        simp only [hr, true_and] at h
        simp [h]
      | cons d ds =>
        rw [hr] at ih
        simpa [List.getLast?_cons_cons] using ih

theorem Word.from_lossless (cw : Char → Nat) (t : Text) :
    (Word.from cw t).word ++ (Word.from cw t).ws = t := trimEndSp_append_rest t

/-! ### the ASCII separator -/

theorem asciiGo_flatten (cur : Text) (inWs : Bool) (rest : Text) :
    (asciiGo cur inWs rest).flatten = cur ++ rest := by
  induction rest generalizing cur inWs with
  | nil => simp only [asciiGo]; split <;> simp_all
  | cons c cs ih =>
    simp only [asciiGo]
    split <;> simp [ih]

theorem asciiGo_nonempty (cur : Text) (inWs : Bool) (rest : Text) :
    ∀ p ∈ asciiGo cur inWs rest, p ≠ [] ∨ (p = cur ∧ cur = []) := by
  induction rest generalizing cur inWs with
  | nil =>
    intro p hp
    simp only [asciiGo] at hp
    split at hp
    · simp at hp
    · next h => simp only [List.mem_singleton] at hp; subst hp; left; intro h2; simp [h2] at h
  | cons c cs ih =>
    intro p hp
    simp only [asciiGo] at hp
    split at hp
    · rcases List.mem_cons.mp hp with rfl | hp
      · by_cases h : p = [] <;> simp [h]
      · rcases ih [c] false p hp with h | h
        · exact Or.inl h
        · simp at h
    · rcases ih (cur ++ [c]) _ p hp with h | h
      · exact Or.inl h
      · simp at h

/-- no position inside a piece where a space is followed by a non-space -/
def noBreakInside : Text → Bool
  | a :: b :: r => !(a == SP && b != SP) && noBreakInside (b :: r)
  | _ => true

theorem noBreakInside_append_singleton (t : Text) (c : Char) :
    noBreakInside (t ++ [c]) = (noBreakInside t && !(t.getLast? == some SP && c != SP)) := by
  induction t with
  | nil => simp [noBreakInside]
  | cons a r ih =>
    cases r with
    | nil => simp [noBreakInside]
    | cons b r' =>
      simp only [List.cons_append, noBreakInside] at ih ⊢
      rw [ih]
      simp [List.getLast?_cons_cons, Bool.and_assoc]

/-- consecutive pieces meet exactly where a space is followed by a non-space; inside a piece
    there is no such position. `prevSp`: the text before the first piece ended in a space. -/
def AsciiCuts : List Text → Prop
  | [] => True
  | [p] => noBreakInside p = true
  | p :: q :: r => noBreakInside p = true ∧ p.getLast? = some SP ∧ (∃ c cs, q = c :: cs ∧ c ≠ SP) ∧
      AsciiCuts (q :: r)

theorem asciiGo_head (cur : Text) (inWs : Bool) (rest : Text) (h : cur ≠ [] ∨ rest ≠ []) :
    ∃ x r, asciiGo cur inWs rest = (cur ++ x) :: r := by
  induction rest generalizing cur inWs with
  | nil =>
    rcases h with h | h
    · exact ⟨[], [], by simp [asciiGo, h]⟩
    · exact absurd rfl h
  | cons c cs ih =>
    simp only [asciiGo]
    split
    · exact ⟨[], asciiGo [c] false cs, by simp⟩
    · obtain ⟨x, r, hx⟩ := ih (cur ++ [c]) (c == SP) (Or.inl (by simp))
      exact ⟨c :: x, r, by simp [hx]⟩

theorem asciiGo_cuts (cur : Text) (inWs : Bool) (rest : Text)
    (hin : inWs = (cur.getLast? == some SP)) (hc : noBreakInside cur = true) :
    AsciiCuts (asciiGo cur inWs rest) := by
  induction rest generalizing cur inWs with
  | nil =>
    simp only [asciiGo]
    split <;> simp [AsciiCuts, hc]
  | cons c cs ih =>
    simp only [asciiGo]
    split
    · next hb =>
      simp only [Bool.and_eq_true, bne_iff_ne, ne_eq] at hb
      obtain ⟨x, r, hx⟩ := asciiGo_head [c] false cs (Or.inl (by simp))
      have := ih [c] false (by simp; exact hb.2) (by simp [noBreakInside])
      rw [hx] at this ⊢
      refine ⟨hc, ?_, ⟨c, x, by simp, hb.2⟩, this⟩
      rw [hin] at hb; simpa using hb.1
    · next hb =>
      apply ih
      · simp
      · rw [noBreakInside_append_singleton, hc]
        simp only [Bool.true_and, Bool.not_eq_true', Bool.and_eq_false_iff]
        simp only [Bool.and_eq_true, bne_iff_ne, ne_eq, not_and, Decidable.not_not] at hb
        by_cases h1 : cur.getLast? == some SP
        · right; have := hb (by rw [hin]; exact h1); simp [this]
        · left; simpa using h1

/-! ### the Unicode separator -/

theorem uniGo_flatten (s : Ansi) (st : Nat) (cur : Text) (opps : List Nat) (rest : Text) :
    (uniGo s st cur opps rest).flatten = cur ++ rest := by
  induction rest generalizing s st cur opps with
  | nil => simp only [uniGo]; split <;> simp_all
  | cons c cs ih =>
    simp only [uniGo]
    split
    · split <;> simp [ih]
    · simp [ih]

end TW

namespace TW

/-- every cut of the Unicode separator loop is made at a character met in skipper state
    `normal` whose stripped offset is one of the opportunities. `(s0, st0)` is the frame at the
    start of `cur`. -/
theorem uniGo_cuts_sound (s0 : Ansi) (st0 : Nat) (s : Ansi) (st : Nat) (cur : Text) (opps : List Nat)
    (rest : Text) (hs : s = s0.run cur) (hst : st = st0 + blen (stripFrom s0 cur)) :
    ∀ pre p post, uniGo s st cur opps rest = pre ++ p :: post → pre ≠ [] →
      s0.run pre.flatten = .normal ∧ opps[pre.length - 1]? = some (st0 + blen (stripFrom s0 pre.flatten)) := by
  induction rest generalizing s0 st0 s st cur opps with
  | nil =>
    intro pre p post h hpre
    simp only [uniGo] at h
    split at h
    · simp at h
    · cases pre with
      | nil => exact absurd rfl hpre
      | cons a b => 
        have := congrArg List.length h
        simp at this
  | cons c cs ih =>
    intro pre p post h hpre
    have hrun : (s.step c).1 = s0.run (cur ++ [c]) := by
      rw [run_append, ← hs]; simp [Ansi.run]
    have hstrip : (if (s.step c).2 then st + c.utf8Size else st) = st0 + blen (stripFrom s0 (cur ++ [c])) := by
      rw [stripFrom_append, ← hs, blen_append, hst]
      simp only [stripFrom]
      split <;> simp [blen] <;> omega
    simp only [uniGo] at h
    split at h
    · next o os =>
      -- s = normal, opps = o :: os
      split at h
      · next heq =>
        -- a cut: result = cur :: uniGo … [c] os cs
        cases pre with
        | nil => exact absurd rfl hpre
        | cons a pre' =>
          simp only [List.cons_append, List.cons.injEq] at h
          obtain ⟨rfl, h⟩ := h
          by_cases hp' : pre' = []
          · subst hp'
            simp only [List.flatten_cons, List.flatten_nil, List.append_nil]
            exact ⟨hs.symm, by rw [← hst, heq]; simp⟩
          · have hframe := ih .normal st ((Ansi.normal.step c).1)
              (if (Ansi.normal.step c).2 then st + c.utf8Size else st) [c] os
              (by simp [Ansi.run]) (by simp only [stripFrom]; split <;> simp [blen]) pre' p post h hp'
            simp only [List.flatten_cons, run_append, stripFrom_append, blen_append, ← hs]
            refine ⟨hframe.1, ?_⟩
            have := hframe.2
            rw [← Nat.add_assoc, ← hst, ← this]
            have hl : 0 < pre'.length := List.length_pos_iff.mpr hp'
            simp only [List.length_cons, Nat.add_sub_cancel]
            obtain ⟨k, hk⟩ : ∃ k, pre'.length = k + 1 := ⟨pre'.length - 1, by omega⟩
            rw [hk]; simp
      · exact ih s0 st0 _ _ (cur ++ [c]) (o :: os) hrun hstrip pre p post h hpre
    · exact ih s0 st0 _ _ (cur ++ [c]) opps hrun hstrip pre p post h hpre

end TW

namespace TW

/-- stripped offset `o` is reached at a character met in skipper state `normal` -/
def Reach (s : Ansi) (st : Nat) (rest : Text) (o : Nat) : Prop :=
  ∃ a c b, rest = a ++ c :: b ∧ s.run a = .normal ∧ st + blen (stripFrom s a) = o

theorem Reach.ge {s : Ansi} {st : Nat} {rest : Text} {o : Nat} (h : Reach s st rest o) : st ≤ o := by
  obtain ⟨a, c, b, _, _, h3⟩ := h; omega

theorem Reach.shift {s : Ansi} {st : Nat} {c : Char} {cs : Text} {o : Nat}
    (h : Reach s st (c :: cs) o) (hne : ¬ (s = .normal ∧ st = o)) :
    Reach (s.step c).1 (if (s.step c).2 then st + c.utf8Size else st) cs o := by
  obtain ⟨a, d, b, h1, h2, h3⟩ := h
  cases a with
  | nil =>
    exfalso; apply hne
    simp only [Ansi.run] at h2
    simp only [stripFrom, blen_nil, Nat.add_zero] at h3
    exact ⟨h2, h3⟩
  | cons x a' =>
    simp only [List.cons_append, List.cons.injEq] at h1
    obtain ⟨rfl, h1⟩ := h1
    refine ⟨a', d, b, h1, by simpa [Ansi.run] using h2, ?_⟩
    simp only [stripFrom] at h3
    split at h3
    · next hv => simp only [hv, if_true, blen_cons] at h3 ⊢; omega
    · next hv => simp only [hv] at h3 ⊢; simpa using h3

/-- completeness: if the opportunities are strictly increasing and each is reached at a
    normal-state character, every one of them produces a cut -/
theorem uniGo_length (s : Ansi) (st : Nat) (cur : Text) (opps : List Nat) (rest : Text)
    (hinc : opps.Pairwise (· < ·)) (hr : ∀ o ∈ opps, Reach s st rest o) (hne : cur ≠ [] ∨ rest ≠ []) :
    (uniGo s st cur opps rest).length = opps.length + 1 := by
  induction rest generalizing s st cur opps with
  | nil =>
    cases opps with
    | nil =>
      rcases hne with h | h
      · simp [uniGo, h]
      · exact absurd rfl h
    | cons o os =>
      obtain ⟨a, c, b, h1, _, _⟩ := hr o (by simp)
      simp at h1
  | cons c cs ih =>
    simp only [uniGo]
    split
    · next o os =>
      split
      · next heq =>
        simp only [List.length_cons, Nat.add_right_cancel_iff]
        apply ih
        · exact (List.pairwise_cons.mp hinc).2
        · intro o' ho'
          have hlt : o < o' := (List.pairwise_cons.mp hinc).1 o' ho'
          exact (hr o' (by simp [ho'])).shift (by intro h; omega)
        · exact Or.inl (by simp)
      · next hneq =>
        apply ih _ _ _ _ hinc
        · intro o' ho'
          apply (hr o' ho').shift
          rintro ⟨_, h2⟩
          rcases List.mem_cons.mp ho' with rfl | h3
          · exact hneq h2
          · have hlt : o < o' := (List.pairwise_cons.mp hinc).1 o' h3
            have := (hr o (by simp)).ge
            omega
        · exact Or.inl (by simp)
    · next hnm =>
      apply ih _ _ _ _ hinc
      · intro o' ho'
        apply (hr o' ho').shift
        rintro ⟨h1, _⟩
        subst h1
        cases opps with
        | nil => simp at ho'
        | cons o os => exact hnm o os rfl rfl
      · exact Or.inl (by simp)

end TW

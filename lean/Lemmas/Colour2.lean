/-
  The Unicode separator on coloured text, block by block: the coloured run and the visible run
  cut at the same blocks (the coloured one directly in front of the sequence run — "first
  entry"), so the words correspond.
-/
import Lemmas.Colour1
namespace TW

open TW.C13

/-- a new piece that starts with a block -/
theorem TR.start' (P : Text) (c : Char) (hP : SeqRun P) (hc : c ≠ ESC) : TR (P ++ [c]) [c] := by
  by_cases hcs : c = SP
  · subst hcs
    refine ⟨P, [SP], rfl, ?_, by simp, hP.2.2, ?_, ?_⟩
    · unfold stripAnsi; rw [hP.2.1]; simp
    · exact fun hl => hP.1 (List.mem_of_getLast? hl)
    · unfold stripAnsi; rw [hP.2.1]; simp
  · exact TR.start P c hP hc (Or.inr hcs)

/-- no cut is made inside invisible text when the stripped offset is not the next opportunity -/
theorem uniGo_invisible (s : Ansi) (st : Nat) (cur : Text) (opps : List Nat) (Q rest : Text)
    (hinv : stripFrom s Q = []) (hno : opps.head? ≠ some st) :
    uniGo s st cur opps (Q ++ rest) = uniGo (s.run Q) st (cur ++ Q) opps rest := by
  induction Q generalizing s cur with
  | nil => simp [Ansi.run]
  | cons q Q' ih =>
    have hq : (s.step q).2 = false := by
      simp only [stripFrom] at hinv
      split at hinv
      · simp at hinv
      · next h => simpa using h
    have hinv' : stripFrom (s.step q).1 Q' = [] := by
      simp only [stripFrom, hq, Bool.false_eq_true, if_false] at hinv; exact hinv
    simp only [List.cons_append, uniGo, hq, Bool.false_eq_true, if_false, Ansi.run]
    split
    · next o os =>
      have : st ≠ o := fun e => hno (by simp [e])
      simp only [this, if_false]
      rw [ih _ _ hinv']; simp
    · rw [ih _ _ hinv']; simp

theorem step_vis (c : Char) (hc : c ≠ ESC) : Ansi.normal.step c = (.normal, true) := by
  simp [Ansi.step, hc]

/-- a block in the coloured run -/
theorem uniGo_block_col (st : Nat) (cur : Text) (opps : List Nat) (P : Text) (c : Char) (rest : Text)
    (hP : SeqRun P) (hc : c ≠ ESC) (hinc : opps.Pairwise (· < ·)) :
    uniGo .normal st cur opps (P ++ c :: rest) =
      match opps with
      | o :: os => if st = o then cur :: uniGo .normal (st + c.utf8Size) (P ++ [c]) os rest
                   else uniGo .normal (st + c.utf8Size) (cur ++ P ++ [c]) (o :: os) rest
      | [] => uniGo .normal (st + c.utf8Size) (cur ++ P ++ [c]) [] rest := by
  have hstepc := step_vis c hc
  cases opps with
  | nil =>
    rw [uniGo_invisible .normal st cur [] P (c :: rest) hP.2.1 (by simp), hP.2.2]
    simp [uniGo, hstepc]
  | cons o os =>
    simp only
    by_cases heq : st = o
    · simp only [heq, if_true]
      have hos : os.head? ≠ some o := by
        cases os with
        | nil => simp
        | cons x xs =>
          have := (List.pairwise_cons.mp hinc).1 x (by simp)
          simp; omega
      cases P with
      | nil =>
        simp only [List.nil_append, uniGo, heq, if_true, hstepc]
      | cons p0 P' =>
        -- the first character of the run is invisible and met in state `normal`: the cut is here
        have hp0 : (Ansi.normal.step p0).2 = false := by
          have := hP.2.1
          simp only [stripFrom] at this
          split at this
          · simp at this
          · next h => simpa using h
        have hinv' : stripFrom (Ansi.normal.step p0).1 P' = [] := by
          have := hP.2.1
          simp only [stripFrom, hp0, Bool.false_eq_true, if_false] at this; exact this
        have hrun' : (Ansi.normal.step p0).1.run P' = .normal := by
          have := hP.2.2; simpa [Ansi.run] using this
        simp only [List.cons_append, uniGo, heq, if_true, hp0, Bool.false_eq_true, if_false]
        rw [uniGo_invisible _ o [p0] os P' (c :: rest) hinv' hos, hrun']
        have hcno : ∀ x xs, os = x :: xs → ¬ (o = x) := by
          intro x xs e h; subst e; exact hos (by simp [h])
        simp only [uniGo, hstepc, if_true]
        cases os with
        | nil => simp
        | cons x xs =>
          have := hcno x xs rfl
          simp [this]
    · simp only [heq, if_false]
      rw [uniGo_invisible .normal st cur (o :: os) P (c :: rest) hP.2.1 (by simp; exact fun e => heq e.symm),
        hP.2.2]
      simp [uniGo, hstepc, heq]

/-- the same block in the visible run -/
theorem uniGo_block_vis (st : Nat) (cur : Text) (opps : List Nat) (c : Char) (rest : Text) (hc : c ≠ ESC) :
    uniGo .normal st cur opps (c :: rest) =
      match opps with
      | o :: os => if st = o then cur :: uniGo .normal (st + c.utf8Size) [c] os rest
                   else uniGo .normal (st + c.utf8Size) (cur ++ [c]) (o :: os) rest
      | [] => uniGo .normal (st + c.utf8Size) (cur ++ [c]) [] rest := by
  have hstepc := step_vis c hc
  cases opps with
  | nil => simp [uniGo, hstepc]
  | cons o os => simp only [uniGo, hstepc, if_true]

/-- **Unicode separator: the pieces of the coloured text correspond one to one to the pieces of
    the visible text** -/
theorem uniGo_blocks (bs : List Block) (tl : Text) (hv : ValidB bs tl)
    (st : Nat) (curC curV : Text) (opps : List Nat) (hinc : opps.Pairwise (· < ·))
    (hlt : ∀ o ∈ opps, o < st + blen (visOf bs))
    (hcur : curV = [] → curC = []) (htr : TR curC curV) (hatt : Attached curV.getLast? bs tl) :
    AllRel TR (uniGo .normal st curC opps (colOf bs tl)) (uniGo .normal st curV opps (visOf bs)) := by
  induction bs generalizing st curC curV opps with
  | nil =>
    simp only [colOf_nil, visOf_nil]
    have hfin := htr.tail tl hv.2 hatt
    have hno : opps.head? ≠ some st := by
      cases opps with
      | nil => simp
      | cons o os => have := hlt o (by simp); simp at this ⊢; omega
    have h1 := uniGo_invisible .normal st curC opps tl [] hv.2.2.1 hno
    simp only [List.append_nil] at h1
    rw [h1]
    simp only [uniGo]
    by_cases hcv : curV = []
    · have hcc := hcur hcv
      subst hcv; subst hcc
      have htl : tl = [] := by
        rcases hatt with h | ⟨d, hd, _⟩
        · exact h
        · simp at hd
      subst htl
      simp; exact AllRel.nil
    · have c2 : curV.isEmpty = false := by cases curV <;> simp_all
      have hcc : curC ++ tl ≠ [] := by
        intro h
        have h' : curC = [] := (List.append_eq_nil_iff.mp h).1
        subst h'
        obtain ⟨X, sp, e1, e2, _⟩ := htr
        have : X = [] ∧ sp = [] := by simpa using e1.symm
        rw [this.1, this.2] at e2
        exact hcv (by simpa [stripAnsi, stripFrom] using e2)
      have c1 : (curC ++ tl).isEmpty = false := by
        cases hq : curC ++ tl with
        | nil => exact absurd hq hcc
        | cons a r => rfl
      simp only [c1, c2, Bool.false_eq_true, if_false]
      exact AllRel.cons hfin AllRel.nil
  | cons b r ih =>
    obtain ⟨P, c⟩ := b
    obtain ⟨hb1, hb2⟩ := hv.1 (P, c) (by simp)
    have hv' : ValidB r tl := ⟨fun x hx => hv.1 x (by simp [hx]), hv.2⟩
    obtain ⟨ha1, ha2⟩ := hatt
    simp only at ha1 ha2 hb1 hb2
    simp only [colOf_cons, visOf_cons]
    rw [uniGo_block_col st curC opps P c (colOf r tl) hb1 hb2 hinc,
      uniGo_block_vis st curV opps c (visOf r) hb2]
    have hlt' : ∀ os : List Nat, (∀ o ∈ os, o ∈ opps) → ∀ o ∈ os, o < st + c.utf8Size + blen (visOf r) := by
      intro os hsub o ho
      have := hlt o (hsub o ho)
      simp only [visOf_cons, blen_cons] at this
      omega
    cases opps with
    | nil =>
      simp only
      apply ih hv' _ _ _ [] List.Pairwise.nil (by simp) (by intro h; simp at h)
        (htr.block P c hb1 hb2 ha1)
      simpa using ha2
    | cons o os =>
      simp only
      by_cases heq : st = o
      · simp only [heq, if_true]
        refine AllRel.cons htr ?_
        apply ih hv' _ _ _ os (List.pairwise_cons.mp hinc).2
          (by rw [← heq]; exact hlt' os (fun x hx => by simp [hx]))
          (by intro h; simp at h) (TR.start' P c hb1 hb2)
        simpa using ha2
      · simp only [heq, if_false]
        apply ih hv' _ _ _ (o :: os) hinc (hlt' (o :: os) (fun x hx => hx))
          (by intro h; simp at h) (htr.block P c hb1 hb2 ha1)
        simpa using ha2

theorem visOf_noEsc (bs : List Block) (tl : Text) (hv : ValidB bs tl) : ∀ c ∈ visOf bs, c ≠ ESC := by
  intro c hc
  obtain ⟨b, hb, rfl⟩ := List.mem_map.mp hc
  exact (hv.1 b hb).2

theorem filterOpps_filter (stripped : Text) (l os : List Nat) (h : filterOpps stripped l = some os) :
    ∃ p : Nat → Bool, os = l.filter p := by
  induction l generalizing os with
  | nil => simp [filterOpps] at h; exact ⟨fun _ => true, by simp [h]⟩
  | cons x l ih =>
    simp only [filterOpps] at h
    split at h
    · next k r hk hr =>
      simp only [Option.some.injEq] at h
      obtain ⟨p, hp⟩ := ih r hr
      -- decide membership by the result itself (the list is duplicate-free only under sortedness,
      -- so build the predicate position-wise instead)
      exact ⟨fun o => keepOpp stripped o = some true, by
        have := (TW.C11.filterOpps_spec stripped (x :: l) os (by simp only [filterOpps, hk, hr, h])).1
        exact this⟩
    · simp at h

/-- **the words of the coloured text are, sequence for sequence, the words of the visible
    text** (Unicode separator; the opportunities of the visible text strictly increasing) -/
theorem findWordsUnicode_colour (env : Env) (bs : List Block) (tl : Text) (hv : ValidB bs tl)
    (hatt : Attached none bs tl) (hinc : (env.opps (visOf bs)).Pairwise (· < ·))
    (wsC : List Word) (h : findWordsUnicode env (colOf bs tl) = some wsC) :
    ∃ wsV, findWordsUnicode env (visOf bs) = some wsV ∧ AllRel (WR env.cw) wsC wsV := by
  have hs1 : stripAnsi (colOf bs tl) = visOf bs := strip_colOf bs tl hv
  have hs2 : stripAnsi (visOf bs) = visOf bs :=
    stripFrom_normal_escfree _ (visOf_noEsc bs tl hv)
  unfold findWordsUnicode at h ⊢
  simp only [hs1, hs2] at h ⊢
  split at h
  · next os hos =>
    simp only [Option.some.injEq] at h
    refine ⟨_, rfl, ?_⟩
    rw [← h]
    apply AllRel.map _ _ (fun a b hab => TR.word env.cw hab)
    have hsorted : os.Pairwise (· < ·) := by
      unfold usedOpps at hos
      obtain ⟨p, hp⟩ := filterOpps_filter _ _ _ hos
      rw [hp]
      exact (hinc.filter _).filter _
    have hltall : ∀ o ∈ os, o < 0 + blen (visOf bs) := by
      intro o ho
      unfold usedOpps at hos
      obtain ⟨p, hp⟩ := filterOpps_filter _ _ _ hos
      rw [hp] at ho
      have := (List.mem_filter.mp (List.mem_filter.mp ho).1).2
      simpa using this
    exact uniGo_blocks bs tl hv 0 [] [] os hsorted hltall (fun _ => rfl) TR.nil (by simpa using hatt)
  · simp at h

end TW

/-
  Lemmas about byte lengths, checked slicing and the run-length tables.
-/
import TextwrapModel.Std
namespace TW

@[simp] theorem blen_nil : blen [] = 0 := rfl
@[simp] theorem blen_cons (c : Char) (cs : Text) : blen (c :: cs) = c.utf8Size + blen cs := rfl

@[simp] theorem blen_append (a b : Text) : blen (a ++ b) = blen a + blen b := by
  induction a with
  | nil => simp
  | cons c cs ih => simp [ih, Nat.add_assoc]

theorem utf8Size_pos (c : Char) : 0 < c.utf8Size := Char.utf8Size_pos c

/-- `Char.utf8Size` as a step function of the code point -/
def utf8SizeNat (n : Nat) : Nat :=
  if n ≤ 0x7F then 1 else if n ≤ 0x7FF then 2 else if n ≤ 0xFFFF then 3 else 4

theorem utf8Size_eq (c : Char) : c.utf8Size = utf8SizeNat c.toNat := by
  unfold Char.utf8Size utf8SizeNat Char.toNat
  simp only [UInt32.le_iff_toNat_le]
  rfl

theorem utf8SizeNat_mono {a b : Nat} (h : a ≤ b) : utf8SizeNat a ≤ utf8SizeNat b := by
  unfold utf8SizeNat
  split <;> split <;> (try split) <;> (try split) <;> (try split) <;> (try split) <;> omega

/-- every run value is at most the UTF-8 size of the run's first code point (and the value
    before the first run is `d ≤ 1`) -/
def okRuns : List (Nat × Nat) → Bool
  | [] => true
  | (s, v) :: rest => decide (v ≤ utf8SizeNat s) && okRuns rest

theorem lookupRuns_le (runs : List (Nat × Nat)) (h : okRuns runs = true) (n d : Nat)
    (hd : d ≤ utf8SizeNat n) : lookupRuns runs n d ≤ utf8SizeNat n := by
  induction runs generalizing d with
  | nil => simpa [lookupRuns]
  | cons r rest ih =>
    obtain ⟨s, v⟩ := r
    simp only [okRuns, Bool.and_eq_true, decide_eq_true_eq] at h
    simp only [lookupRuns]
    split
    · exact hd
    · next hlt =>
      apply ih h.2
      exact Nat.le_trans h.1 (utf8SizeNat_mono (by omega))

theorem getD_append_left' {α} (l₁ l₂ : List α) (i : Nat) (d : α) (h : i < l₁.length) :
    (l₁ ++ l₂).getD i d = l₁.getD i d := by
  simp [List.getD_eq_getElem?_getD, List.getElem?_append_left h]

theorem getD_append_right' {α} (l₁ l₂ : List α) (i : Nat) (d : α) (h : l₁.length ≤ i) :
    (l₁ ++ l₂).getD i d = l₂.getD (i - l₁.length) d := by
  simp [List.getD_eq_getElem?_getD, List.getElem?_append_right h]

theorem mem_of_mem_dropLast {α} {a : α} : ∀ {l : List α}, a ∈ l.dropLast → a ∈ l
  | [], h => by simp at h
  | [_], h => by simp at h
  | x :: y :: r, h => by
    rw [List.dropLast_cons_cons] at h
    rcases List.mem_cons.mp h with h | h
    · simp [h]
    · exact List.mem_cons_of_mem _ (mem_of_mem_dropLast h)

end TW

/-
  Lemmas about byte lengths, checked slicing and the run-length tables.
-/
import TextwrapModel.Std
namespace TW

@[simp] theorem blen_nil : blen [] = 0 := rfl
@[simp] theorem blen_cons (c : Char) (cs : Text) : blen (c :: cs) = c.utf8Size + blen cs := rfl

@[simp] theorem blen_append (a b : Text) : blen (a ++ b) = blen a + blen b := by
  induction a with
  | nil => simp
  | cons c cs ih => simp [ih, Nat.add_assoc]

theorem utf8Size_pos (c : Char) : 0 < c.utf8Size := Char.utf8Size_pos c

/-- `Char.utf8Size` as a step function of the code point -/
def utf8SizeNat (n : Nat) : Nat :=
  if n ≤ 0x7F then 1 else if n ≤ 0x7FF then 2 else if n ≤ 0xFFFF then 3 else 4

theorem utf8Size_eq (c : Char) : c.utf8Size = utf8SizeNat c.toNat := by
  unfold Char.utf8Size utf8SizeNat Char.toNat
  simp only [UInt32.le_iff_toNat_le]
  rfl

theorem utf8SizeNat_mono {a b : Nat} (h : a ≤ b) : utf8SizeNat a ≤ utf8SizeNat b := by
  unfold utf8SizeNat
  split <;> split <;> (try split) <;> (try split) <;> (try split) <;> (try split) <;> omega

/-- every run value is at most the UTF-8 size of the run's first code point (and the value
    before the first run is `d ≤ 1`) -/
def okRuns : List (Nat × Nat) → Bool
  | [] => true
  | (s, v) :: rest => decide (v ≤ utf8SizeNat s) && okRuns rest

theorem lookupRuns_le (runs : List (Nat × Nat)) (h : okRuns runs = true) (n d : Nat)
    (hd : d ≤ utf8SizeNat n) : lookupRuns runs n d ≤ utf8SizeNat n := by
  induction runs generalizing d with
  | nil => simpa [lookupRuns]
  | cons r rest ih =>
    obtain ⟨s, v⟩ := r
    simp only [okRuns, Bool.and_eq_true, decide_eq_true_eq] at h
    simp only [lookupRuns]
    split
    · exact hd
    · next hlt =>
      apply ih h.2
      exact Nat.le_trans h.1 (utf8SizeNat_mono (by omega))

theorem getD_append_left' {α} (l₁ l₂ : List α) (i : Nat) (d : α) (h : i < l₁.length) :
    (l₁ ++ l₂).getD i d = l₁.getD i d := by
  simp [List.getD_eq_getElem?_getD, List.getElem?_append_left h]

theorem getD_append_right' {α} (l₁ l₂ : List α) (i : Nat) (d : α) (h : l₁.length ≤ i) :
    (l₁ ++ l₂).getD i d = l₂.getD (i - l₁.length) d := by
  simp [List.getD_eq_getElem?_getD, List.getElem?_append_right h]

theorem mem_of_mem_dropLast {α} {a : α} : ∀ {l : List α}, a ∈ l.dropLast → a ∈ l
  | [], h => by simp at h
  | [_], h => by simp at h
  | x :: y :: r, h => by
    rw [List.dropLast_cons_cons] at h
    rcases List.mem_cons.mp h with h | h
    · simp [h]
    · exact List.mem_cons_of_mem _ (mem_of_mem_dropLast h)

end TW

namespace TW

theorem blen_eq_zero {t : Text} (h : blen t = 0) : t = [] := by
  cases t with
  | nil => rfl
  | cons c cs => have := utf8Size_pos c; simp at h; omega

theorem splitBytes?_some {t : Text} {n : Nat} {a b : Text} (h : splitBytes? t n = some (a, b)) :
    t = a ++ b ∧ blen a = n := by
  induction t generalizing n a b with
  | nil =>
    cases n with
    | zero => simp [splitBytes?] at h; simp [h]
    | succ n => simp [splitBytes?] at h
  | cons c cs ih =>
    cases n with
    | zero => simp [splitBytes?] at h; obtain ⟨rfl, rfl⟩ := h; simp
    | succ n =>
      simp only [splitBytes?] at h
      split at h
      · next hle =>
        split at h
        · next a' b' hr =>
          simp only [Option.some.injEq, Prod.mk.injEq] at h
          obtain ⟨rfl, rfl⟩ := h
          obtain ⟨h1, h2⟩ := ih hr
          refine ⟨by simp [h1], by simp only [blen_cons, h2]; omega⟩
        · simp at h
      · simp at h

theorem splitBytes?_append (a b : Text) : splitBytes? (a ++ b) (blen a) = some (a, b) := by
  induction a with
  | nil => cases b <;> simp [splitBytes?]
  | cons c cs ih =>
    have hp := utf8Size_pos c
    simp only [List.cons_append, blen_cons]
    obtain ⟨k, hk⟩ : ∃ k, c.utf8Size + blen cs = k + 1 := ⟨c.utf8Size + blen cs - 1, by omega⟩
    rw [hk]
    simp only [splitBytes?]
    have : c.utf8Size ≤ k + 1 := by omega
    simp only [this, if_true]
    have : k + 1 - c.utf8Size = blen cs := by omega
    rw [this, ih]

/-- a byte offset determines the split -/
theorem split_unique {a b a' b' : Text} (h : a ++ b = a' ++ b') (hl : blen a = blen a') : a = a' ∧ b = b' := by
  have h1 := splitBytes?_append a b
  rw [h, hl, splitBytes?_append] at h1
  simp only [Option.some.injEq, Prod.mk.injEq] at h1
  exact ⟨h1.1.symm, h1.2.symm⟩

theorem slice?_some {t : Text} {a b : Nat} {m : Text} (h : slice? t a b = some m) :
    ∃ l r, t = l ++ m ++ r ∧ blen l = a ∧ blen (l ++ m) = b := by
  unfold slice? at h
  split at h
  · next hab =>
    split at h
    · next l r hs =>
      split at h
      · next m' r' hs2 =>
        simp only [Option.some.injEq] at h; subst h
        obtain ⟨h1, h2⟩ := splitBytes?_some hs
        obtain ⟨h3, h4⟩ := splitBytes?_some hs2
        exact ⟨l, r', by rw [h1, h3]; simp, h2, by simp only [blen_append, h2, h4]; omega⟩
      · simp at h
    · simp at h
  · simp at h

theorem slice?_append (l m r : Text) : slice? (l ++ m ++ r) (blen l) (blen (l ++ m)) = some m := by
  unfold slice?
  have h1 : blen l ≤ blen (l ++ m) := by simp
  simp only [h1, if_true, List.append_assoc, splitBytes?_append]
  have : blen (l ++ m) - blen l = blen m := by simp
  rw [this, splitBytes?_append]

theorem sliceFrom?_append (l r : Text) : sliceFrom? (l ++ r) (blen l) = some r := by
  simp [sliceFrom?, splitBytes?_append]

theorem sliceTo?_append (l r : Text) : sliceTo? (l ++ r) (blen l) = some l := by
  simp [sliceTo?, splitBytes?_append]

end TW

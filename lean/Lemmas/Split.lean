/-
  Lemmas about `split('\n')`, `split("\r\n")`, joining, `split_terminator`, `lines`.
-/
import TextwrapModel.Std
import Lemmas.Bytes
namespace TW

theorem splitLF_ne_nil (t : Text) : splitLF t ≠ [] := by
  cases t with
  | nil => simp [splitLF]
  | cons c cs =>
    simp only [splitLF]
    split
    · simp
    · cases h : splitLF cs <;> simp [consHead]

theorem consHead_ne_nil (c : Char) (l : List Text) : consHead c l ≠ [] := by
  cases l <;> simp [consHead]

theorem joinWith_cons_cons (sep a b : Text) (r : List Text) :
    joinWith sep (a :: b :: r) = a ++ sep ++ joinWith sep (b :: r) := rfl

theorem joinWith_consHead (sep : Text) (c : Char) (l : List Text) (h : l ≠ []) :
    joinWith sep (consHead c l) = c :: joinWith sep l := by
  match l, h with
  | [a], _ => simp [consHead, joinWith]
  | a :: b :: r, _ => simp [consHead, joinWith]

theorem joinWith_splitLF (t : Text) : joinWith [LF] (splitLF t) = t := by
  induction t with
  | nil => simp [splitLF, joinWith]
  | cons c cs ih =>
    simp only [splitLF]
    split
    · next h =>
      obtain ⟨a, r, hr⟩ : ∃ a r, splitLF cs = a :: r := by
        cases h' : splitLF cs with
        | nil => exact absurd h' (splitLF_ne_nil cs)
        | cons a r => exact ⟨a, r, rfl⟩
      rw [hr, joinWith_cons_cons, ← hr, ih, h]; simp
    · rw [joinWith_consHead _ _ _ (splitLF_ne_nil cs), ih]

theorem splitLF_no_LF (t : Text) : ∀ p ∈ splitLF t, LF ∉ p := by
  induction t with
  | nil => simp [splitLF]
  | cons c cs ih =>
    simp only [splitLF]
    split
    · intro p hp
      rcases List.mem_cons.mp hp with h | h
      · subst h; simp
      · exact ih p h
    · next hc =>
      intro p hp
      cases hs : splitLF cs with
      | nil => exact absurd hs (splitLF_ne_nil cs)
      | cons a r =>
        rw [hs] at hp ih
        simp only [consHead, List.mem_cons] at hp
        rcases hp with h | h
        · subst h
          intro hm
          rcases List.mem_cons.mp hm with h1 | h1
          · exact hc h1.symm
          · exact ih a (by simp) h1
        · exact ih p (by simp [h])

/-- the last piece is empty exactly for the empty text and for text ending in `'\n'` -/
theorem splitLF_getLast (t : Text) :
    (splitLF t).getLast? = some [] ↔ (t = [] ∨ t.getLast? = some LF) := by
  induction t with
  | nil => simp [splitLF]
  | cons c cs ih =>
    simp only [splitLF]
    split
    · next h =>
      subst h
      cases hs : splitLF cs with
      | nil => exact absurd hs (splitLF_ne_nil cs)
      | cons a r =>
        rw [List.getLast?_cons_cons, ← hs, ih]
        cases cs with
        | nil => simp
        | cons d ds => simp [List.getLast?_cons_cons]
    · next hc =>
      cases hs : splitLF cs with
      | nil => exact absurd hs (splitLF_ne_nil cs)
      | cons a r =>
        cases r with
        | nil =>
          -- one piece: `cs` has no LF, the last piece is `c :: a ≠ []`
          simp only [consHead, List.getLast?_singleton, Option.some.injEq, reduceCtorEq, false_iff]
          have hcs : cs = a := by have := joinWith_splitLF cs; rw [hs] at this; simpa [joinWith] using this.symm
          have hno := splitLF_no_LF cs a (by simp [hs])
          intro h
          rcases h with h | h
          · exact absurd h (by simp)
          · cases cs with
            | nil => simp at h; exact hc h
            | cons d ds =>
              rw [List.getLast?_cons_cons] at h
              have : LF ∈ (d :: ds) := List.mem_of_getLast? h
              rw [hcs] at this
              exact hno this
        | cons b r' =>
          simp only [consHead, List.getLast?_cons_cons]
          have := ih
          rw [hs, List.getLast?_cons_cons] at this
          rw [this]
          cases cs with
          | nil => simp [splitLF] at hs
          | cons d ds => simp [List.getLast?_cons_cons]

theorem joinWith_dropLast_nil (ps : List Text) (h : ps.getLast? = some []) (h2 : 2 ≤ ps.length) :
    joinWith [LF] ps.dropLast ++ [LF] = joinWith [LF] ps := by
  induction ps with
  | nil => simp at h2
  | cons a r ih =>
    cases r with
    | nil => simp at h2
    | cons b r' =>
      cases r' with
      | nil =>
        simp only [List.getLast?_cons_cons, List.getLast?_singleton, Option.some.injEq] at h
        subst h
        simp [joinWith, List.dropLast]
      | cons c r'' =>
        rw [List.getLast?_cons_cons] at h
        have := ih h (by simp)
        simp only [List.dropLast_cons_cons, joinWith_cons_cons] at this ⊢
        rw [List.append_assoc, List.append_assoc] 
        rw [← this]
        simp [List.append_assoc]

/-- `split_terminator('\n')` pieces joined by `'\n'`, plus the final newline if there was one,
    give the text back -/
theorem joinWith_splitTerminatorLF (t : Text) :
    joinWith [LF] (splitTerminatorLF t) ++ (if t.getLast? = some LF then [LF] else []) = t := by
  unfold splitTerminatorLF
  by_cases hl : (splitLF t).getLast? = some []
  · simp only [hl]
    rcases (splitLF_getLast t).mp hl with h | h
    · subst h; simp [splitLF, joinWith]
    · simp only [h, if_true]
      have h2 : 2 ≤ (splitLF t).length := by
        cases t with
        | nil => simp at h
        | cons c cs =>
          -- a text ending in LF has at least one LF, hence ≥ 2 pieces
          rcases hs : splitLF (c :: cs) with _ | ⟨a, _ | ⟨b, r⟩⟩
          · exact absurd hs (splitLF_ne_nil _)
          · exfalso
            rw [hs] at hl
            simp at hl
            subst hl
            have := joinWith_splitLF (c :: cs)
            rw [hs] at this
            simp [joinWith] at this
          · simp
      rw [joinWith_dropLast_nil _ hl h2, joinWith_splitLF]
  · have hne : t.getLast? ≠ some LF := fun h => hl ((splitLF_getLast t).mpr (Or.inr h))
    have : (match (splitLF t).getLast? with
        | some [] => (splitLF t).dropLast
        | _ => splitLF t) = splitLF t := by
      split
      · next h => exact absurd h hl
      · rfl
    simp only [this, hne, if_false, List.append_nil, joinWith_splitLF]

end TW

namespace TW

theorem splitCRLF_ne_nil (t : Text) : splitCRLF t ≠ [] := by
  match t with
  | [] => simp [splitCRLF]
  | [c] => simp [splitCRLF]
  | c :: d :: cs =>
    simp only [splitCRLF]
    split
    · simp
    · exact consHead_ne_nil _ _

theorem joinWith_splitCRLF (t : Text) : joinWith [CR, LF] (splitCRLF t) = t := by
  match t with
  | [] => simp [splitCRLF, joinWith]
  | [c] => simp [splitCRLF, joinWith]
  | c :: d :: cs =>
    simp only [splitCRLF]
    split
    · next h =>
      obtain ⟨rfl, rfl⟩ := h
      have ih := joinWith_splitCRLF cs
      obtain ⟨a, r, hr⟩ : ∃ a r, splitCRLF cs = a :: r := by
        cases h' : splitCRLF cs with
        | nil => exact absurd h' (splitCRLF_ne_nil cs)
        | cons a r => exact ⟨a, r, rfl⟩
      rw [hr, joinWith_cons_cons, ← hr, ih]; simp
    · have ih := joinWith_splitCRLF (d :: cs)
      rw [joinWith_consHead _ _ _ (splitCRLF_ne_nil _), ih]

end TW

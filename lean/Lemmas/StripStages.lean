/-
  Stage lemmas for C13 (ANSI colour codes do not change where lines break).
  Stage lemmas of the simulation between wrapping coloured text and wrapping the text with the
  sequences removed: stripping is a homomorphism at normal-state cuts, it does not change display
  widths, it commutes with the Unicode separator (same opportunities) and with `break_apart`.
  The end-to-end composition (`wrap_strip_commute`) is not part of this file; it is decided by
  the oracle on every generated case.
-/
import Lemmas.Words
import Lemmas.Break
import Props.C11
namespace TW.C13

/-- stripped text is ESC-free -/
theorem stripFrom_noEsc (s : Ansi) (t : Text) : ∀ c ∈ stripFrom s t, c ≠ ESC := by
  induction t generalizing s with
  | nil => simp [stripFrom]
  | cons d ds ih =>
    simp only [stripFrom]
    split
    · next hv =>
      intro c hc
      rcases List.mem_cons.mp hc with rfl | hc
      · have hs := step_visible_normal s c hv
        subst hs
        intro he; subst he; simp [Ansi.step] at hv
      · exact ih _ c hc
    · exact ih _

/-- **stripping is a homomorphism at a cut made in skipper state `normal`** -/
-- @audit TW.C13.strip_append_normal
theorem strip_append_normal (a b : Text) (h : Ansi.run .normal a = .normal) :
    stripAnsi (a ++ b) = stripAnsi a ++ stripAnsi b := by
  unfold stripAnsi; rw [stripFrom_append, h]

/-- **stripping does not change the display width** (so coloured and stripped text yield the
    same numeric fragment widths) -/
-- @audit TW.C13.dw_strip
theorem dw_strip (cw : Char → Nat) (s : Ansi) (t : Text) :
    dwFrom cw .normal (stripFrom s t) = dwFrom cw s t := by
  induction t generalizing s with
  | nil => simp [stripFrom, dwFrom]
  | cons c cs ih =>
    simp only [stripFrom, dwFrom]
    split
    · next hv =>
      have hs := step_visible_normal s c hv
      subst hs
      have hc : c ≠ ESC := by intro he; subst he; simp [Ansi.step] at hv
      have hst : Ansi.normal.step c = (.normal, true) := by simp [Ansi.step, hc]
      simp only [hst, dwFrom, if_true]
      rw [ih]
    · next hv =>
      have hv' : (s.step c).2 = false := by simpa using hv
      simp only [hv', Bool.false_eq_true, if_false, Nat.zero_add]
      exact ih _

-- @audit TW.C13.displayWidth_strip
theorem displayWidth_strip (cw : Char → Nat) (t : Text) :
    displayWidth cw (stripAnsi t) = displayWidth cw t := dw_strip cw .normal t

/-! ### `break_apart` commutes with stripping -/

def stripW (w : Word) : Word := { w with word := stripAnsi w.word }

theorem breakGo_strip (cw : Char → Nat) (limit : Nat) (ws pen : Text) (s : Ansi) (cur : Text) (w : Nat)
    (rest : Text) (hs : s = Ansi.run .normal cur)
    (hvis : stripAnsi cur ≠ [] ∨ stripFrom s rest ≠ []) :
    (breakGo cw limit ws pen s cur w rest).map stripW =
      breakGo cw limit ws pen .normal (stripAnsi cur) w (stripFrom s rest) := by
  induction rest generalizing s cur w with
  | nil =>
    simp only [stripFrom, breakGo]
    have hne : stripAnsi cur ≠ [] := by
      rcases hvis with h | h
      · exact h
      · simp [stripFrom] at h
    have hcur : cur ≠ [] := by intro h; subst h; simp [stripAnsi, stripFrom] at hne
    have e1 : cur.isEmpty = false := by simpa using hcur
    have e2 : (stripAnsi cur).isEmpty = false := by simpa using hne
    simp only [e1, e2, Bool.false_eq_true, if_false, List.map_cons, List.map_nil, stripW]
  | cons c cs ih =>
    have hrun : (s.step c).1 = Ansi.run .normal (cur ++ [c]) := by
      rw [run_append, ← hs]; simp [Ansi.run]
    have hstrip : stripAnsi (cur ++ [c]) = stripAnsi cur ++ (if (s.step c).2 then [c] else []) := by
      unfold stripAnsi
      rw [stripFrom_append, ← hs]
      by_cases h : (s.step c).2 = true <;> simp [stripFrom, h]
    simp only [breakGo, stripFrom]
    by_cases hv : (s.step c).2 = true
    · have hsn := step_visible_normal s c hv
      have hcE : c ≠ ESC := by intro he; subst he; subst hsn; simp [Ansi.step] at hv
      have hstep : (Ansi.normal.step c) = (.normal, true) := by simp [Ansi.step, hcE]
      simp only [hv, if_true, breakGo, hstep]
      have hnext : (s.step c).1 = .normal := by subst hsn; simp [Ansi.step, hcE]
      by_cases hcut : 0 < w ∧ limit < w + cw c
      · simp only [hcut, and_self, if_true, List.map_cons]
        have := ih (s.step c).1 [c] (cw c) (by rw [hnext]; subst hsn; simp [Ansi.run, Ansi.step, hcE])
          (Or.inl (by simp [stripAnsi, stripFrom, Ansi.step, hcE]))
        rw [this, hnext]
        simp [stripW, stripAnsi, stripFrom, Ansi.step, hcE]
      · simp only [hcut, if_false]
        have := ih (s.step c).1 (cur ++ [c]) (w + cw c) hrun (Or.inl (by rw [hstrip]; simp [hv]))
        rw [this, hstrip, hnext]; simp [hv]
    · have hv' : (s.step c).2 = false := by simpa using hv
      simp only [hv', Bool.false_eq_true, if_false]
      have := ih (s.step c).1 (cur ++ [c]) w hrun (by
        rcases hvis with h | h
        · left; rw [hstrip]; simp [hv', h]
        · right; simpa [stripFrom, hv'] using h)
      rw [this, hstrip]; simp [hv']

/-- **force-breaking a coloured word and then stripping the pieces = force-breaking the stripped
    word** (for a word with at least one visible character — always the case when `break_words`
    calls `break_apart`, whose cached width exceeds the limit): same cut positions, no sequence
    is cut in two -/
-- @audit TW.C13.break_strip_commute
theorem break_strip_commute (cw : Char → Nat) (limit : Nat) (w : Word) (hvis : stripAnsi w.word ≠ []) :
    (breakApart cw limit w).map stripW = breakApart cw limit (stripW w) := by
  unfold breakApart
  have := breakGo_strip cw limit w.ws w.pen .normal [] 0 w.word rfl (Or.inr hvis)
  simpa [stripW, stripAnsi, stripFrom] using this

/-! ### the Unicode separator commutes with stripping -/

/-- two splittings of the same text with the same cumulative byte lengths are equal -/
theorem pieces_unique : ∀ (p q : List Text), p.flatten = q.flatten → p.length = q.length →
    (∀ k, k < p.length → blen (p.take (k + 1)).flatten = blen (q.take (k + 1)).flatten) → p = q
  | [], [], _, _, _ => rfl
  | [], _ :: _, _, h, _ => by simp at h
  | _ :: _, [], _, h, _ => by simp at h
  | a :: p, b :: q, hf, hl, hc => by
    have h0 := hc 0 (by simp)
    simp only [List.take_succ_cons, List.take_zero, List.flatten_cons, List.flatten_nil, List.append_nil] at h0
    simp only [List.flatten_cons] at hf
    obtain ⟨rfl, hrest⟩ := split_unique hf h0
    congr 1
    apply pieces_unique p q hrest (by simpa using hl)
    intro k hk
    have := hc (k + 1) (by simp; omega)
    simp only [List.take_succ_cons, List.flatten_cons, blen_append] at this
    omega

/-- stripping distributes over pieces all of whose proper prefixes end in state `normal` -/
theorem strip_flatten (P : List Text)
    (h : ∀ pre p post, P = pre ++ p :: post → pre ≠ [] → Ansi.run .normal pre.flatten = .normal) :
    stripAnsi P.flatten = (P.map stripAnsi).flatten := by
  induction P with
  | nil => rfl
  | cons a rest ih =>
    cases rest with
    | nil => simp
    | cons b r =>
      have ha : Ansi.run .normal a = .normal := by
        have := h [a] b r rfl (by simp)
        simpa using this
      simp only [List.flatten_cons, List.map_cons]
      rw [strip_append_normal a _ ha]
      congr 1
      have := ih (fun pre p post hp hne => by
        have := h (a :: pre) p post (by simp [hp]) (by simp)
        simp only [List.flatten_cons, run_append, ha] at this
        exact this)
      simpa using this

theorem take_split {α} (P : List α) (k : Nat) (hk : k + 1 < P.length) :
    ∃ p post, P = P.take (k + 1) ++ p :: post := by
  have h2 : P.drop (k + 1) ≠ [] := by
    intro he
    have := congrArg List.length he
    simp at this; omega
  obtain ⟨p, post, hp⟩ : ∃ p post, P.drop (k + 1) = p :: post := by
    cases hd : P.drop (k + 1) with
    | nil => exact absurd hd h2
    | cons p post => exact ⟨p, post, rfl⟩
  exact ⟨p, post, by rw [← hp, List.take_append_drop]⟩

/-- **the words found in coloured text, with the sequences stripped, are the words found in the
    stripped text** (Unicode separator; the opportunities are those of the stripped text in both
    runs): strictly increasing char-boundary opportunities before the end. -/
-- @audit TW.C13.unicode_strip_commute
theorem unicode_strip_commute (os : List Nat) (line : Text) (hline : stripAnsi line ≠ [])
    (hinc : os.Pairwise (· < ·))
    (hb : ∀ o ∈ os, ∃ p d q, stripAnsi line = p ++ d :: q ∧ blen p = o) :
    (uniGo .normal 0 [] os line).map stripAnsi = uniGo .normal 0 [] os (stripAnsi line) := by
  have hlne : line ≠ [] := by intro h; subst h; simp [stripAnsi, stripFrom] at hline
  have hSS : stripAnsi (stripAnsi line) = stripAnsi line :=
    stripFrom_normal_escfree _ (stripFrom_noEsc .normal line)
  -- lengths
  have hlP : (uniGo .normal 0 [] os line).length = os.length + 1 :=
    uniGo_length _ _ _ _ _ hinc (fun o ho => by
      obtain ⟨p, d, q, h1, rfl⟩ := hb o ho
      exact TW.C11.reach_of_strip .normal line p d q h1) (Or.inr hlne)
  have hlQ : (uniGo .normal 0 [] os (stripAnsi line)).length = os.length + 1 :=
    uniGo_length _ _ _ _ _ hinc (fun o ho => by
      obtain ⟨p, d, q, h1, rfl⟩ := hb o ho
      exact TW.C11.reach_of_strip .normal (stripAnsi line) p d q (by unfold stripAnsi at hSS ⊢; rw [hSS]; exact h1))
      (Or.inr hline)
  -- soundness of the cuts on both sides
  have sP := uniGo_cuts_sound .normal 0 .normal 0 [] os line rfl (by simp [stripFrom])
  have sQ := uniGo_cuts_sound .normal 0 .normal 0 [] os (stripAnsi line) rfl (by simp [stripFrom])
  have hP : ∀ pre p post, uniGo .normal 0 [] os line = pre ++ p :: post → pre ≠ [] →
      Ansi.run .normal pre.flatten = .normal := fun pre p post h hne => (sP pre p post h hne).1
  apply pieces_unique
  · -- same concatenation
    rw [← strip_flatten _ hP, uniGo_flatten, uniGo_flatten]; simp
  · simp [hlP, hlQ]
  · intro k hk
    simp only [List.length_map] at hk
    by_cases hlast : k + 1 = (uniGo .normal 0 [] os line).length
    · -- the whole lists
      have e1 : ((uniGo .normal 0 [] os line).map stripAnsi).take (k + 1) = (uniGo .normal 0 [] os line).map stripAnsi := by
        apply List.take_of_length_le; simp [hlast]
      have e2 : (uniGo .normal 0 [] os (stripAnsi line)).take (k + 1) = uniGo .normal 0 [] os (stripAnsi line) := by
        apply List.take_of_length_le; rw [hlQ, ← hlP, hlast]; exact Nat.le_refl _
      rw [e1, e2, ← strip_flatten _ hP, uniGo_flatten, uniGo_flatten]; simp
    · have hk1 : k + 1 < (uniGo .normal 0 [] os line).length := by omega
      have hk2 : k + 1 < (uniGo .normal 0 [] os (stripAnsi line)).length := by rw [hlQ, ← hlP]; exact hk1
      obtain ⟨p1, post1, h1⟩ := take_split _ k hk1
      obtain ⟨p2, post2, h2⟩ := take_split _ k hk2
      have hlen1 : ((uniGo .normal 0 [] os line).take (k + 1)).length = k + 1 := by
        rw [List.length_take]; exact Nat.min_eq_left (Nat.le_of_lt hk1)
      have hlen2 : ((uniGo .normal 0 [] os (stripAnsi line)).take (k + 1)).length = k + 1 := by
        rw [List.length_take]; exact Nat.min_eq_left (Nat.le_of_lt hk2)
      have hne1 : (uniGo .normal 0 [] os line).take (k + 1) ≠ [] := by
        intro he; rw [he] at hlen1; simp at hlen1
      have hne2 : (uniGo .normal 0 [] os (stripAnsi line)).take (k + 1) ≠ [] := by
        intro he; rw [he] at hlen2; simp at hlen2
      obtain ⟨_, a2⟩ := sP _ p1 post1 h1 hne1
      obtain ⟨_, b2⟩ := sQ _ p2 post2 h2 hne2
      rw [hlen1] at a2; rw [hlen2] at b2
      simp only [Nat.zero_add, Nat.add_sub_cancel] at a2 b2
      rw [a2] at b2
      simp only [Option.some.injEq] at b2
      -- left: strip of the prefix; right: the prefix of ESC-free pieces is its own strip
      have hl : (((uniGo .normal 0 [] os line).map stripAnsi).take (k + 1)).flatten =
          stripAnsi ((uniGo .normal 0 [] os line).take (k + 1)).flatten := by
        rw [← List.map_take]
        symm
        apply strip_flatten
        intro pre p post hp hne
        have : uniGo .normal 0 [] os line = pre ++ p :: (post ++ p1 :: post1) := by
          rw [h1, hp]; simp
        exact hP pre p _ this hne
      have hr : stripAnsi ((uniGo .normal 0 [] os (stripAnsi line)).take (k + 1)).flatten =
          ((uniGo .normal 0 [] os (stripAnsi line)).take (k + 1)).flatten := by
        apply stripFrom_normal_escfree
        intro c hc
        have hmem : c ∈ (uniGo .normal 0 [] os (stripAnsi line)).flatten := by
          rw [h2]; simp only [List.flatten_append]; exact List.mem_append_left _ hc
        rw [uniGo_flatten] at hmem
        exact stripFrom_noEsc .normal line c (by simpa [stripAnsi] using hmem)
      rw [hl, ← hr]
      unfold stripAnsi at b2 ⊢
      omega

end TW.C13

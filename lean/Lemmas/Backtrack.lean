/-
  Lemmas about the back-tracking loop of `wrap_optimal_fit` (optimal_fit.rs:376-388).
-/
import TextwrapModel.Algo
namespace TW

/-- contiguous, strictly increasing chain of segments from `s` to `e` -/
def SegChain : Nat → List (Nat × Nat) → Nat → Prop
  | s, [], e => s = e
  | s, (a, b) :: rest, e => a = s ∧ a < b ∧ SegChain b rest e

theorem SegChain.le {s e : Nat} {segs : List (Nat × Nat)} (h : SegChain s segs e) : s ≤ e := by
  induction segs generalizing s with
  | nil => exact Nat.le_of_eq h
  | cons p rest ih =>
    obtain ⟨a, b⟩ := p
    obtain ⟨h1, h2, h3⟩ := h
    have := ih h3
    omega

theorem SegChain.append {s mid e : Nat} {xs : List (Nat × Nat)} (h : SegChain s xs mid) (hlt : mid < e) :
    SegChain s (xs ++ [(mid, e)]) e := by
  induction xs generalizing s with
  | nil => simp only [SegChain] at h; subst h; exact ⟨rfl, hlt, rfl⟩
  | cons p rest ih =>
    obtain ⟨a, b⟩ := p
    obtain ⟨h1, h2, h3⟩ := h
    exact ⟨h1, h2, ih h3⟩

/-- every segment of a chain ending at `e` has `a < b ≤ e` -/
theorem SegChain.bounds {s e : Nat} {segs : List (Nat × Nat)} (h : SegChain s segs e) :
    ∀ p ∈ segs, p.1 < p.2 ∧ p.2 ≤ e := by
  induction segs generalizing s with
  | nil => simp
  | cons q rest ih =>
    obtain ⟨a, b⟩ := q
    obtain ⟨h1, h2, h3⟩ := h
    intro p hp
    rcases List.mem_cons.mp hp with rfl | hp
    · exact ⟨h2, h3.le⟩
    · exact ih h3 p hp

theorem backtrackGo_spec (r : Nat → Nat) (n : Nat) (hr : ∀ j, 1 ≤ j → j ≤ n → r j < j) :
    ∀ fuel pos, 1 ≤ pos → pos ≤ n → pos ≤ fuel →
      ∃ segs, backtrackGo r fuel pos = some segs ∧ SegChain 0 segs.reverse pos ∧ segs ≠ [] := by
  intro fuel
  induction fuel with
  | zero => intro pos h1 _ h3; omega
  | succ fuel ih =>
    intro pos h1 h2 h3
    have hlt := hr pos h1 h2
    simp only [backtrackGo]
    have hnp : ¬ pos < r pos := by omega
    simp only [hnp, if_false]
    by_cases h0 : r pos = 0
    · simp only [h0, if_true]
      exact ⟨_, rfl, ⟨rfl, by omega, rfl⟩, by simp⟩
    · simp only [h0, if_false]
      obtain ⟨segs, hs, hc, _⟩ := ih (r pos) (by omega) (by omega) (by omega)
      rw [hs]
      exact ⟨_, rfl, by simpa using hc.append hlt, by simp⟩

theorem take_drop_split {β : Type} (l : List β) (a b e : Nat) (hab : a ≤ b) (hbe : b ≤ e) :
    (l.drop a).take (b - a) ++ (l.drop b).take (e - b) = (l.drop a).take (e - a) := by
  have : e - a = (b - a) + (e - b) := by omega
  rw [this, List.take_add, List.drop_drop]
  congr 3
  omega

theorem segs_flatten {β : Type} (l : List β) {s e : Nat} {segs : List (Nat × Nat)}
    (h : SegChain s segs e) :
    (segs.map fun p => (l.drop p.1).take (p.2 - p.1)).flatten = (l.drop s).take (e - s) := by
  induction segs generalizing s with
  | nil => simp only [SegChain] at h; subst h; simp
  | cons p rest ih =>
    obtain ⟨a, b⟩ := p
    obtain ⟨h1, h2, h3⟩ := h
    subst h1
    simp only [List.map_cons, List.flatten_cons, ih h3]
    exact take_drop_split l a b e (by omega) h3.le

end TW

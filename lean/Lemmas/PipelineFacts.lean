/-
  Facts about the pipeline's output for the built-in splitters: no inserted penalties; and for
  the ASCII separator the last fragment is fine (`LastOk`).
-/
import Lemmas.LastOk
namespace TW

/-- the splitter is one of the two built-in ones -/
def Builtin : Splitter → Prop
  | .none => True
  | .hyphen => True
  | .custom _ => False

theorem builtin_inRange (isAlnum : Char → Bool) (sp : Splitter) (h : Builtin sp) : SplitterInRange isAlnum sp := by
  cases sp with
  | none => intro w i hi; simp [Splitter.points] at hi
  | hyphen => intro w i hi; exact (hyphenPoints_boundary isAlnum w i hi).choose_spec.choose_spec.2.2
  | custom f => exact absurd h (by simp [Builtin])

/-! ### no inserted penalties -/

theorem splitOK_noPen_hyphen (cw : Char → Nat) (w : Word) (hw : w.pen = []) (pre : Text) (pts : List Nat)
    (ps : List Word) (h : SplitOK cw w pre pts ps)
    (hpts : ∀ i ∈ pts, ∃ a, blen (a ++ [HY]) = i ∧ ∃ b, w.word = a ++ [HY] ++ b) : ∀ p ∈ ps, p.pen = [] := by
  induction pts generalizing pre ps with
  | nil =>
    intro p hp
    match ps, h with
    | [q], h => simp only [List.mem_singleton] at hp; subst hp; rw [h.2.1, hw]
  | cons i pts ih =>
    intro p hp
    match ps, h with
    | q :: qs, h =>
      obtain ⟨h1, h2, h3, h4, ⟨post, h5⟩, h6⟩ := h
      rcases List.mem_cons.mp hp with rfl | hp
      · obtain ⟨a, ha, b, hb⟩ := hpts i (by simp)
        have : pre ++ p.word = a ++ [HY] := by
          have e : (pre ++ p.word) ++ post = (a ++ [HY]) ++ b := by rw [← h5, hb]
          exact (split_unique e (by omega)).1
        rw [h4, this]; simp
      · exact ih (pre ++ q.word) qs h6 (fun j hj => hpts j (by simp [hj])) p hp

theorem splitWords_noPen (env : Env) (sp : Splitter) (hb : Builtin sp) (ws sw : List Word)
    (hws : NoPen ws) (h : splitWords env sp ws = some sw) : NoPen sw := by
  induction ws generalizing sw with
  | nil => simp [splitWords] at h; subst h; intro w hw; simp at hw
  | cons w rest ih =>
    simp only [splitWords] at h
    split at h
    · next a b ha hb' =>
      simp only [Option.some.injEq] at h; subst h
      have hrest := ih b (fun x hx => hws x (by simp [hx])) hb'
      have hwp : w.pen = [] := hws w (by simp)
      intro x hx
      rcases List.mem_append.mp hx with hx | hx
      · cases sp with
        | none =>
          simp only [Splitter.points, splitOne, or_true, if_true] at ha
          split at ha
          · simp only [Option.some.injEq] at ha; subst ha
            simp only [List.mem_singleton] at hx; subst hx; exact hwp
          · simp at ha
        | hyphen =>
          have hok := splitOne_ok env.cw w _ 0 [] w.word rfl rfl
            (fun i hi => (hyphenPoints_boundary env.isAlnum w.word i hi).choose_spec.choose_spec.2.2)
            (Or.inr rfl) a ha
          apply splitOK_noPen_hyphen env.cw w hwp [] _ a hok _ x hx
          intro i hi
          obtain ⟨a', y, b', h1, _, _, h4⟩ := (hyphenPointsGo_mem env.isAlnum none 0 w.word i).mp hi
          refine ⟨a', ?_, y :: b', by simp [h1]⟩
          have : HY.utf8Size = 1 := by decide
          simp only [blen_append, blen_cons, blen_nil]; omega
        | custom f => exact absurd hb (by simp [Builtin])
      · exact hrest x hx
    · simp at h

theorem breakOK_pens (cw : Char → Nat) (limit : Nat) (ws pen : Text) (ps : List Word)
    (h : BreakOK cw limit ws pen ps) : ∀ p ∈ ps, p.pen = [] ∨ p.pen = pen := by
  induction ps with
  | nil => simp
  | cons p rest ih =>
    cases rest with
    | nil =>
      intro q hq; simp only [List.mem_singleton] at hq; subst hq; exact Or.inr h.2.2.1
    | cons q r =>
      obtain ⟨_, _, h3, _, _, _, _, _, h9⟩ := h
      intro x hx
      rcases List.mem_cons.mp hx with rfl | hx
      · exact Or.inl h3
      · exact ih h9 x hx

theorem breakWords_noPen (cw : Char → Nat) (limit : Nat) (ws : List Word) (hws : NoPen ws) :
    NoPen (breakWords cw limit ws) := by
  induction ws with
  | nil => intro w hw; simp [breakWords] at hw
  | cons w rest ih =>
    have hrest := ih (fun x hx => hws x (by simp [hx]))
    intro x hx
    simp only [breakWords] at hx
    rcases List.mem_append.mp hx with hx | hx
    · split at hx
      · have hok := breakGo_ok cw limit w.ws w.pen .normal [] 0 w.word rfl rfl (Or.inl (Nat.zero_le _))
        rcases breakOK_pens cw limit w.ws w.pen _ hok x hx with h | h
        · exact h
        · rw [h]; exact hws w (by simp)
      · simp only [List.mem_singleton] at hx; subst hx; exact hws x (by simp)
    · exact hrest x hx

theorem findWords_noPen (env : Env) (sep : Sep) (line : Text) (ws : List Word)
    (h : findWords env sep line = some ws) : NoPen ws := by
  intro w hw
  cases sep with
  | ascii =>
    simp only [findWords, Option.some.injEq] at h; subst h
    obtain ⟨t, _, rfl⟩ := List.mem_map.mp hw; rfl
  | unicode =>
    simp only [findWords, findWordsUnicode] at h
    split at h
    · simp only [Option.some.injEq] at h; subst h
      obtain ⟨t, _, rfl⟩ := List.mem_map.mp hw; rfl
    · simp at h

/-- with a built-in splitter no fragment carries a penalty -/
theorem pipeline_noPen (env : Env) (o : Opts) (hb : Builtin o.splitter) (line : Text) (sw : Nat)
    (ws : List Word) (h : pipeline env o line sw = some ws) : NoPen ws := by
  unfold pipeline at h
  split at h
  · simp at h
  · next fw hfw =>
    have f1 := findWords_noPen env o.sep line fw hfw
    split at h
    · simp at h
    · next sp hsp =>
      have s1 := splitWords_noPen env o.splitter hb fw sp f1 hsp
      split at h
      · have b1 := breakWords_noPen env.cw sw sp s1
        split at h
        · simp only [Option.some.injEq] at h; subst h; exact b1
        · simp only [Option.some.injEq] at h; subst h
          intro w hw
          rcases List.mem_cons.mp hw with rfl | hw
          · rfl
          · exact b1 w hw
      · simp only [Option.some.injEq] at h; subst h; exact s1

/-! ### `LastOk` for the ASCII separator -/

theorem RefinesAll.append {a b fa fb : List Word} (ha : RefinesAll a fa) (hb : RefinesAll b fb) :
    RefinesAll (a ++ b) (fa ++ fb) := by
  induction ha with
  | nil => simpa using hb
  | cons hf _ ih => rw [List.cons_append, List.append_assoc]; exact RefinesAll.cons hf ih

theorem RefinesAll.split {a b gs : List Word} (h : RefinesAll (a ++ b) gs) :
    ∃ g1 g2, gs = g1 ++ g2 ∧ RefinesAll a g1 ∧ RefinesAll b g2 := h.split'

theorem RefinesAll.trans {ws fs gs : List Word} (h1 : RefinesAll ws fs) (h2 : RefinesAll fs gs) :
    RefinesAll ws gs := by
  induction h1 generalizing gs with
  | nil => cases h2; exact RefinesAll.nil
  | cons hf _ ih =>
    obtain ⟨g1, g2, e, r1, r2⟩ := h2.split
    rw [e]
    exact RefinesAll.cons (hf.trans r1) (ih r2)

theorem splitWords_refines (env : Env) (sp : Splitter) (hr : SplitterInRange env.isAlnum sp)
    (ws sw : List Word) (h : splitWords env sp ws = some sw) : RefinesAll ws sw := by
  induction ws generalizing sw with
  | nil => simp [splitWords] at h; subst h; exact RefinesAll.nil
  | cons w rest ih =>
    simp only [splitWords] at h
    split at h
    · next a b ha hb =>
      simp only [Option.some.injEq] at h; subst h
      exact RefinesAll.cons (splitOne_refines env.cw w _ (hr w.word) a ha) (ih b hb)
    · simp at h

theorem breakWords_refines (cw : Char → Nat) (limit : Nat) (ws : List Word) (hws : ∀ w ∈ ws, FragOk cw w) :
    RefinesAll ws (breakWords cw limit ws) := by
  induction ws with
  | nil => exact RefinesAll.nil
  | cons w rest ih =>
    simp only [breakWords]
    apply RefinesAll.cons _ (ih (fun x hx => hws x (by simp [hx])))
    split
    · next hlt =>
      have hw := hws w (by simp)
      exact breakApart_refines cw limit w (dw_pos_ne_nil cw _ (by rw [← hw.2]; omega))
    · exact Refines.refl w

/-- ASCII pieces after the first start with a non-space -/
theorem asciiCuts_tail (ps : List Text) (h : AsciiCuts ps) :
    ∀ pre p, ps = pre ++ [p] → pre ≠ [] → ∃ c cs, p = c :: cs ∧ c ≠ SP := by
  induction ps with
  | nil => intro pre p h; simp at h
  | cons a r ih =>
    intro pre p hp hpre
    cases r with
    | nil =>
      cases pre with
      | nil => exact absurd rfl hpre
      | cons x xs => simp at hp
    | cons b r' =>
      obtain ⟨_, _, hq, hrest⟩ := h
      cases pre with
      | nil => exact absurd rfl hpre
      | cons x xs =>
        simp only [List.cons_append, List.cons.injEq] at hp
        cases xs with
        | nil =>
          simp only [List.nil_append] at hp
          have : r' = [] ∧ b = p := by
            have := hp.2; simp at this; exact ⟨this.2, this.1⟩
          obtain ⟨_, rfl⟩ := this
          exact hq
        | cons y ys => exact ih hrest (y :: ys) p hp.2 (by simp)

theorem trimEndSp_ne_nil_of_head (c : Char) (cs : Text) (hc : c ≠ SP) : trimEndSp (c :: cs) ≠ [] := by
  rw [trimEndSp_cons]
  split
  · next h => exact absurd h.2 hc
  · simp

theorem findWordsAscii_first_empty (cw : Char → Nat) (line : Text) :
    ∀ pre w, findWordsAscii cw line = pre ++ [w] → w.word = [] → wordsText pre = [] := by
  intro pre w h hw
  unfold findWordsAscii at h
  by_cases hpre : pre = []
  · subst hpre; rfl
  · exfalso
    -- split the piece list accordingly
    obtain ⟨pp, p, hp, hpp, rfl⟩ : ∃ pp p, asciiGo [] false line = pp ++ [p] ∧ pp.map (Word.from cw) = pre ∧
        w = Word.from cw p := by
      have hl : (asciiGo [] false line).map (Word.from cw) ≠ [] := by rw [h]; simp
      have hne : asciiGo [] false line ≠ [] := by intro he; rw [he] at hl; simp at hl
      refine ⟨(asciiGo [] false line).dropLast, (asciiGo [] false line).getLast hne,
        (List.dropLast_concat_getLast hne).symm, ?_, ?_⟩
      · have := congrArg List.dropLast h
        rw [List.dropLast_concat] at this
        rw [← this, List.map_dropLast]
      · have := congrArg List.getLast? h
        rw [List.getLast?_map, List.getLast?_eq_some_getLast hne] at this
        simpa using this.symm
    have hcuts := asciiGo_cuts [] false line (by simp) (by simp [noBreakInside])
    have hppne : pp ≠ [] := by intro he; subst he; simp at hpp; exact hpre hpp
    obtain ⟨c, cs, rfl, hc⟩ := asciiCuts_tail _ hcuts pp p hp hppne
    exact trimEndSp_ne_nil_of_head c cs hc hw

theorem lastOk_cons_empty (s : Word) (fs : List Word) (hs : wordsText [s] = []) (hsw : s.word = [])
    (h : LastOk fs) : LastOk (s :: fs) := by
  intro pre l hfr
  cases pre with
  | nil =>
    simp only [List.nil_append, List.cons.injEq] at hfr
    obtain ⟨rfl, _⟩ := hfr
    simp [hsw]
  | cons x xs =>
    simp only [List.cons_append, List.cons.injEq] at hfr
    obtain ⟨rfl, hfr⟩ := hfr
    obtain ⟨h1, h2⟩ := h xs l hfr
    refine ⟨h1, fun hl => ?_⟩
    simp only [wordsText_cons] at hs ⊢
    simp only [wordsText_nil, List.append_nil] at hs
    rw [hs, h2 hl]; rfl

/-- **ASCII separator, splitter in range**: the last fragment of the pipeline is fine -/
theorem pipeline_lastOk_ascii (env : Env) (o : Opts) (hsep : o.sep = .ascii)
    (hr : SplitterInRange env.isAlnum o.splitter) (line : Text) (sw : Nat) (ws : List Word)
    (h : pipeline env o line sw = some ws) : LastOk ws := by
  unfold pipeline at h
  rw [hsep] at h
  simp only [findWords] at h
  have hfrag : ∀ w ∈ findWordsAscii env.cw line, FragOk env.cw w := by
    intro w hw; obtain ⟨t, _, rfl⟩ := List.mem_map.mp hw; exact from_fragOk _ t
  have hend : ∀ w ∈ findWordsAscii env.cw line, w.word.getLast? ≠ some SP := by
    intro w hw; obtain ⟨t, _, rfl⟩ := List.mem_map.mp hw; exact trimEndSp_no_trailing t
  split at h
  · simp at h
  · next sp hsp =>
    have r1 := splitWords_refines env o.splitter hr _ sp hsp
    have s2 := (splitWords_text env o.splitter hr _ sp hfrag hsp).2
    split at h
    · have r2 := breakWords_refines env.cw sw sp s2
      have hl := refinesAll_lastOk _ _ (r1.trans r2) hend (findWordsAscii_first_empty env.cw line)
      split at h
      · simp only [Option.some.injEq] at h; subst h; exact hl
      · simp only [Option.some.injEq] at h; subst h
        exact lastOk_cons_empty _ _ (by simp [Word.from, trimEndSp]) (by simp [Word.from, trimEndSp]) hl
    · simp only [Option.some.injEq] at h; subst h
      exact refinesAll_lastOk _ _ r1 hend (findWordsAscii_first_empty env.cw line)

end TW

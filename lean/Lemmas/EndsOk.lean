/-
  Without force-breaking no fragment's word ends in a space — for BOTH separators: the words of
  `Word::from` are trimmed, the hyphen splitter cuts directly after a `'-'`. Hence no slice of any
  line ends in a space when `break_words` is off (for the Unicode separator relative to the LB7
  clause of the external routine, which makes empty words occur at the very beginning only).
-/
import Lemmas.LastOkUnicode
import Lemmas.FragEnds
namespace TW

/-- no word ends in a space, and a fragment with an empty word has only empty text before it
    (`T` = the text before the list) -/
def EndsOkFrom (T : Text) (frs : List Word) : Prop :=
  ∀ a l b, frs = a ++ l :: b → l.word.getLast? ≠ some SP ∧ (l.word = [] → T ++ wordsText a = [])

theorem EndsOkFrom.tail {T : Text} {w : Word} {r : List Word} (h : EndsOkFrom T (w :: r)) :
    EndsOkFrom (T ++ (w.word ++ w.ws)) r := by
  intro a l b hr
  obtain ⟨h1, h2⟩ := h (w :: a) l b (by rw [hr]; rfl)
  refine ⟨h1, fun hl => ?_⟩
  have := h2 hl
  simpa [wordsText_cons, List.append_assoc] using this

theorem EndsOkFrom.append {T : Text} {x y : List Word} (hx : EndsOkFrom T x)
    (hy : EndsOkFrom (T ++ wordsText x) y) : EndsOkFrom T (x ++ y) := by
  intro a l b h
  -- `l` lies in `x` or in `y`
  by_cases hlen : a.length < x.length
  · have : ∃ b', x = a ++ l :: b' := by
      have h1 := congrArg (List.take x.length) h
      rw [List.take_left'] at h1
      · have : (a ++ l :: b).take x.length = a ++ (l :: b).take (x.length - a.length) := by
          rw [List.take_append]; simp [List.take_of_length_le (Nat.le_of_lt hlen)]
        rw [this] at h1
        obtain ⟨k, hk⟩ : ∃ k, x.length - a.length = k + 1 := ⟨x.length - a.length - 1, by omega⟩
        rw [hk, List.take_succ_cons] at h1
        exact ⟨_, h1⟩
      · rfl
    obtain ⟨b', hb'⟩ := this
    exact hx a l b' hb'
  · have hge : x.length ≤ a.length := Nat.le_of_not_lt hlen
    obtain ⟨a', rfl⟩ : ∃ a', a = x ++ a' := by
      refine ⟨a.drop x.length, ?_⟩
      have h1 := congrArg (List.take x.length) h
      rw [List.take_left', List.take_append_of_le_length hge] at h1
      · conv => lhs; rw [← List.take_append_drop x.length a]
        rw [← h1]
      · rfl
    rw [List.append_assoc] at h
    have hrest := List.append_cancel_left h
    obtain ⟨h1, h2⟩ := hy a' l b hrest
    exact ⟨h1, fun hl => by simpa [wordsText_append, List.append_assoc] using h2 hl⟩

/-- the pieces of one split word (hyphen splitter): every piece but the last ends in `'-'` and is
    non-empty; the last ends as the word does and is non-empty unless the word is empty -/
theorem splitOK_endsOk (cw : Char → Nat) (isAlnum : Char → Bool) (w : Word) (T pre : Text) (pts : List Nat)
    (ps : List Word) (hok : SplitOK cw w pre pts ps)
    (hpts : ∀ i ∈ pts, i ∈ hyphenPoints isAlnum w.word)
    (hsorted : pts.Pairwise (· < ·)) (hfirst : ∀ i ∈ pts, blen pre < i)
    (hpre : blen pre < blen w.word ∨ pre = [])
    (hw : w.word.getLast? ≠ some SP) (hwe : w.word = [] → T = []) :
    EndsOkFrom (T ++ pre) ps := by
  induction pts generalizing pre ps with
  | nil =>
    match ps, hok with
    | [p], hok =>
      obtain ⟨_, _, _, h4⟩ := hok
      intro a l b hal
      have : a = [] ∧ l = p := by
        cases a with
        | nil => simp at hal; exact ⟨rfl, hal.1.symm⟩
        | cons x xs => simp at hal
      obtain ⟨rfl, rfl⟩ := this
      refine ⟨?_, fun hl => ?_⟩
      · by_cases hl : l.word = []
        · simp [hl]
        · rw [← h4, getLast?_append_of_ne_nil _ _ hl] at hw; exact hw
      · rw [hl] at h4
        simp only [List.append_nil] at h4
        simp only [wordsText_nil, List.append_nil]
        rcases hpre with hp | hp
        · rw [h4] at hp; omega
        · subst hp; simp only [List.append_nil]; exact hwe h4.symm
  | cons idx pts ih =>
    match ps, hok with
    | p :: ps', hok =>
      obtain ⟨h1, h2, _, _, ⟨post, h5⟩, h6⟩ := hok
      obtain ⟨a0, y, b0, e1, _, _, e4⟩ := (hyphenPointsGo_mem isAlnum none 0 w.word idx).mp (hpts idx (by simp))
      have hcut : pre ++ p.word = a0 ++ [HY] := by
        have e : (pre ++ p.word) ++ post = (a0 ++ [HY]) ++ (y :: b0) := by rw [← h5, e1]; simp
        have hl : blen (pre ++ p.word) = blen (a0 ++ [HY]) := by
          rw [h1, e4]
          have : HY.utf8Size = 1 := by decide
          simp only [blen_append, blen_cons, blen_nil]; omega
        exact (split_unique e hl).1
      have hidx : idx < blen w.word :=
        (hyphenPoints_boundary isAlnum w.word idx (hpts idx (by simp))).choose_spec.choose_spec.2.2
      have hpne : p.word ≠ [] := by
        intro he
        rw [he] at h1
        simp only [List.append_nil] at h1
        have := hfirst idx (by simp)
        omega
      have hplast : p.word.getLast? = some HY := by
        have := congrArg List.getLast? hcut
        rw [getLast?_append_of_ne_nil _ _ hpne] at this
        simpa using this
      have hrec := ih (pre ++ p.word) ps' h6 (fun i hi => hpts i (by simp [hi]))
        (List.pairwise_cons.mp hsorted).2
        (fun i hi => by rw [h1]; exact (List.pairwise_cons.mp hsorted).1 i hi)
        (Or.inl (by rw [h1]; exact hidx))
      intro a l b hal
      cases a with
      | nil =>
        simp only [List.nil_append, List.cons.injEq] at hal
        obtain ⟨rfl, _⟩ := hal
        exact ⟨by rw [hplast]; decide, fun hl => absurd hl hpne⟩
      | cons x xs =>
        simp only [List.cons_append, List.cons.injEq] at hal
        obtain ⟨rfl, hal⟩ := hal
        obtain ⟨r1, r2⟩ := hrec xs l b hal
        refine ⟨r1, fun hl => ?_⟩
        have := r2 hl
        simpa [wordsText_cons, h2, List.append_assoc] using this

/-- `split_words` with a built-in splitter keeps the property -/
theorem splitWords_endsOk (env : Env) (sp : Splitter) (hb : Builtin sp) (T : Text) (ws sw : List Word)
    (h : splitWords env sp ws = some sw) (hws : EndsOkFrom T ws) (hfrag : ∀ w ∈ ws, FragOk env.cw w) :
    EndsOkFrom T sw := by
  induction ws generalizing T sw with
  | nil => simp [splitWords] at h; subst h; intro a l b hal; simp at hal
  | cons w rest ih =>
    simp only [splitWords] at h
    split at h
    · next a b ha hb' =>
      simp only [Option.some.injEq] at h; subst h
      obtain ⟨hw1, hw2⟩ := hws [] w rest rfl
      -- the text of the pieces of `w` is the text of `w`
      have htext : wordsText a = w.word ++ w.ws := by
        have := (splitWords_text env sp (builtin_inRange _ _ hb) [w] a (fun x hx => by
          simp only [List.mem_singleton] at hx; subst hx; exact hfrag x (by simp)) (by
          simp only [splitWords, ha, List.append_nil])).1
        simpa using this
      apply EndsOkFrom.append
      · cases sp with
        | none =>
          simp only [Splitter.points, splitOne, or_true, if_true] at ha
          split at ha
          · next t ht =>
            simp only [Option.some.injEq] at ha; subst ha
            have : t = w.word := by
              have := sliceFrom?_append [] w.word
              simp only [List.nil_append, blen_nil] at this
              rw [this] at ht; simpa using ht.symm
            subst this
            intro a' l b' hal
            cases a' with
            | nil =>
              simp only [List.nil_append, List.cons.injEq] at hal
              obtain ⟨rfl, _⟩ := hal
              exact ⟨hw1, fun hl => by simpa using hw2 hl⟩
            | cons x xs => simp at hal
          · simp at ha
        | hyphen =>
          have hok := splitOne_ok env.cw w _ 0 [] w.word rfl rfl
            (fun i hi => (hyphenPoints_boundary env.isAlnum w.word i hi).choose_spec.choose_spec.2.2)
            (Or.inr rfl) a ha
          have := splitOK_endsOk env.cw env.isAlnum w T [] _ a hok (fun i hi => hi)
            (hyphenPointsGo_sorted env.isAlnum none 0 w.word)
            (fun i hi => by
              obtain ⟨a', y, b', _, _, _, e4⟩ := (hyphenPointsGo_mem env.isAlnum none 0 w.word i).mp hi
              simp only [blen_nil]; omega)
            (Or.inr rfl) hw1 (fun he => by simpa using hw2 he)
          simpa using this
        | custom f => exact absurd hb (by simp [Builtin])
      · rw [htext]
        exact ih (T ++ (w.word ++ w.ws)) b hb' hws.tail (fun x hx => hfrag x (by simp [hx]))
    · simp at h

/-- under `EndsOkFrom []`, the slice of any group of a partition does not end in a space -/
theorem groupSlice_no_trailing_sp' (frs : List Word) (hfe : EndsOkFrom [] frs) (a g b : List Word)
    (h : frs = a ++ g ++ b) : (groupSlice g).getLast? ≠ some SP := by
  unfold groupSlice
  cases hl : g.getLast? with
  | none => simp
  | some last =>
    obtain ⟨ys, rfl⟩ := List.getLast?_eq_some_iff.mp hl
    simp only [List.dropLast_concat]
    obtain ⟨h1, h2⟩ := hfe (a ++ ys) last b (by rw [h]; simp)
    by_cases hw : last.word = []
    · have := h2 hw
      simp only [List.nil_append, wordsText_append, List.append_eq_nil_iff] at this
      rw [hw, this.2]; simp
    · rw [getLast?_append_of_ne_nil _ _ hw]; exact h1

/-- the words of `Word::from` over pieces: none ends in a space -/
theorem words_endsOk (cw : Char → Nat) (P : List Text)
    (hfirst : ∀ pre w, P.map (Word.from cw) = pre ++ [w] → w.word = [] → wordsText pre = [])
    (hheads : ∀ p ∈ P.tail, ∃ c cs, p = c :: cs ∧ c ≠ SP) :
    EndsOkFrom [] (P.map (Word.from cw)) := by
  intro a l b hal
  have hl : ∃ p ∈ P, l = Word.from cw p := by
    have : l ∈ P.map (Word.from cw) := by rw [hal]; simp
    obtain ⟨p, hp, rfl⟩ := List.mem_map.mp this
    exact ⟨p, hp, rfl⟩
  obtain ⟨p, hp, rfl⟩ := hl
  refine ⟨trimEndSp_no_trailing p, fun he => ?_⟩
  simp only [List.nil_append]
  -- an empty word comes from an all-space piece; such a piece can only be the first
  by_cases ha : a = []
  · subst ha; rfl
  · exfalso
    -- `p` is then in the tail of `P`, so it starts with a non-space character
    have hmem : p ∈ P.tail ∨ True := Or.inr trivial
    -- locate `p` by position: `a` non-empty means the index is positive
    have hpos : ∃ p' ∈ P.tail, Word.from cw p' = Word.from cw p ∧ (Word.from cw p').word = [] := by
      cases P with
      | nil => simp at hal
      | cons p0 Pr =>
        simp only [List.map_cons] at hal
        cases a with
        | nil => exact absurd rfl ha
        | cons a0 a' =>
          simp only [List.cons_append, List.cons.injEq] at hal
          have : Word.from cw p ∈ Pr.map (Word.from cw) := by rw [hal.2]; simp
          obtain ⟨p', hp', e⟩ := List.mem_map.mp this
          exact ⟨p', by simpa using hp', e, by rw [e]; exact he⟩
    obtain ⟨p', hp', _, he'⟩ := hpos
    obtain ⟨c, cs, rfl, hc⟩ := hheads p' hp'
    exact trimEndSp_ne_nil_of_head c cs hc he'

theorem asciiCuts_heads (P : List Text) (h : AsciiCuts P) : ∀ p ∈ P.tail, ∃ c cs, p = c :: cs ∧ c ≠ SP := by
  induction P with
  | nil => simp
  | cons a r ih =>
    cases r with
    | nil => simp
    | cons b r' =>
      obtain ⟨_, _, hq, hrest⟩ := h
      intro p hp
      simp only [List.tail_cons] at hp
      rcases List.mem_cons.mp hp with rfl | hp
      · exact hq
      · exact ih hrest p (by simpa using hp)

/-- **without force-breaking the fragments of the pipeline satisfy `EndsOkFrom []`** (both
    separators, built-in splitters; Unicode separator relative to the LB7 clause) -/
theorem pipeline_endsOk_nobreak (env : Env) (o : Opts) (hb : Builtin o.splitter) (hbw : o.breakWords = false)
    (line : Text) (hc : o.sep = .unicode → OppsNoSpace (stripAnsi line) (env.opps (stripAnsi line)))
    (sw : Nat) (frs : List Word) (h : pipeline env o line sw = some frs) : EndsOkFrom [] frs := by
  unfold pipeline at h
  split at h
  · simp at h
  · next fw hfw =>
    have hwords : EndsOkFrom [] fw ∧ ∀ w ∈ fw, FragOk env.cw w := by
      cases hs : o.sep with
      | ascii =>
        rw [hs] at hfw
        simp only [findWords, Option.some.injEq] at hfw; subst hfw
        refine ⟨?_, fun w hw => by obtain ⟨t, _, rfl⟩ := List.mem_map.mp hw; exact from_fragOk _ t⟩
        unfold findWordsAscii
        apply words_endsOk
        · intro pre w hpw hw
          exact findWordsAscii_first_empty env.cw line pre w (by unfold findWordsAscii; exact hpw) hw
        · exact asciiCuts_heads _ (asciiGo_cuts [] false line (by simp) (by simp [noBreakInside]))
      | unicode =>
        rw [hs] at hfw
        simp only [findWords] at hfw
        have hfirst := findWordsUnicode_first_empty env line (hc hs) fw hfw
        unfold findWordsUnicode at hfw
        simp only at hfw
        split at hfw
        · next os hos =>
          simp only [Option.some.injEq] at hfw; subst hfw
          refine ⟨?_, fun w hw => by obtain ⟨t, _, rfl⟩ := List.mem_map.mp hw; exact from_fragOk _ t⟩
          apply words_endsOk
          · exact hfirst
          · have hsub : ∀ x ∈ os, x ∈ env.opps (stripAnsi line) := by
              intro x hx
              unfold usedOpps at hos
              exact (List.mem_filter.mp (filterOpps_sub _ _ _ hos x hx)).1
            exact uniGo_heads .normal 0 [] os line (by
              intro a c b ha hm
              simp only [Nat.zero_add] at hm
              exact hc hs a c b ha (hsub _ hm))
        · simp at hfw
    split at h
    · simp at h
    · next sws hsws =>
      simp only [hbw, Bool.false_eq_true, if_false, Option.some.injEq] at h
      subst h
      exact splitWords_endsOk env o.splitter hb [] fw sws hsws hwords.1 hwords.2

end TW

/-
  From the greedy invariant of first-fit to display widths of the wrapped lines.
-/
import Lemmas.PipelineFacts
namespace TW

section
variable {α : Type} [Add α] [LT α] [Zero α] [DecidableRel (α := α) (· < ·)] {β : Type}

/-- every line of a greedy arrangement fits its own line width (first fragment exempt) -/
theorem GreedyLines.line_fits (m : β → Frag α) (lws : List α) (dflt : α) (k : Nat) (ls : List (List β))
    (h : GreedyLines m lws dflt k ls) :
    ∀ i l, ls[i]? = some l → lineFits m (lws.getD (k + i) dflt) l := by
  induction ls generalizing k with
  | nil => intro i l hl; simp at hl
  | cons a r ih =>
    intro i l hl
    cases r with
    | nil =>
      cases i with
      | zero => simp at hl; subst hl; simpa [GreedyLines] using h
      | succ i => simp at hl
    | cons b r' =>
      obtain ⟨h1, _, h3⟩ := h
      cases i with
      | zero => simp at hl; subst hl; simpa using h1
      | succ i =>
        have := ih (k + 1) h3 i l (by simpa using hl)
        have e : k + 1 + i = k + (i + 1) := by omega
        rw [e] at this; exact this
end

theorem lineAcc_fragOf (ws : List Word) : lineAcc (fragOf (α := Int)) ws = (fragSum ws : Int) := by
  unfold lineAcc
  have key : ∀ (acc : Int) (l : List Word),
      l.foldl (fun acc f => acc + ((fragOf (α := Int) f).w + (fragOf (α := Int) f).ws)) acc = acc + (fragSum l : Int) := by
    intro acc l
    induction l generalizing acc with
    | nil => simp
    | cons w r ih =>
      simp only [List.foldl_cons]
      rw [ih]
      simp only [fragSum_cons, fragOf, ofNat_int]
      push_cast; omega
  rw [key]; simp

theorem HNorm.append {a b : List Word} : HNorm (a ++ b) ↔ HNorm a ∧ HNorm b := by
  induction a with
  | nil => simp [HNorm]
  | cons w r ih =>
    simp only [List.cons_append, HNorm, ih]
    constructor
    · rintro ⟨a, b, c, d⟩; exact ⟨⟨a, b, c⟩, d⟩
    · rintro ⟨⟨a, b, c⟩, d⟩; exact ⟨a, b, c, d⟩

theorem HNorm.of_flatten {groups : List (List Word)} (h : HNorm groups.flatten) : ∀ g ∈ groups, HNorm g := by
  induction groups with
  | nil => intro g hg; simp at hg
  | cons a r ih =>
    simp only [List.flatten_cons] at h
    obtain ⟨h1, h2⟩ := HNorm.append.mp h
    intro g hg
    rcases List.mem_cons.mp hg with rfl | hg
    · exact h1
    · exact ih h2 g hg

/-- under H-norm the slice of a group has display width `Σ(w + ws)` of all fragments but the last
    plus the last fragment's width, and ends in skipper state `normal` -/
theorem groupSlice_width (cw : Char → Nat) (hsp : cw SP = 1) (pre : List Word) (last : Word)
    (hn : HNorm (pre ++ [last])) (hw : ∀ w ∈ pre ++ [last], w.width = displayWidth cw w.word) :
    displayWidth cw (groupSlice (pre ++ [last])) = fragSum pre + last.width ∧
      Ansi.run .normal (groupSlice (pre ++ [last])) = .normal := by
  obtain ⟨h1, h2⟩ := HNorm.append.mp hn
  obtain ⟨a1, a2⟩ := hnorm_additive cw hsp pre h1 (fun w hw' => hw w (by simp [hw']))
  have hl := hw last (by simp)
  have : groupSlice (pre ++ [last]) = wordsText pre ++ last.word := by
    simp [groupSlice]
  rw [this]
  unfold displayWidth at hl ⊢
  refine ⟨by rw [dwFrom_append, a1, a2, ← hl], ?_⟩
  rw [run_append, a2]; exact h2.1

end TW

/-
  Total monotonicity of the online cost matrix from the chain structure alone: the proof of
  `Inst.tm_strict` (Lemmas/OptimalCore.lean) uses of the column-minima contract only that every
  entry up to the larger row `i'` is reached through its row (`D j = D (r j) + c (r j) j`,
  `r j < j`, `D 0 = 0`) — never minimality. This is the form the correctness proof of the model
  of `smawk::online_column_minima` needs: while the algorithm runs only the finished columns
  are known to be minima.
-/
import Lemmas.OptimalCore
namespace TW.Opt

/-- the entries `1..k` are reached through their rows -/
structure IsChainTo (c : Nat → Nat → Int) (D : Nat → Int) (r : Nat → Nat) (k : Nat) : Prop where
  d0 : D 0 = 0
  lt : ∀ j, 1 ≤ j → j ≤ k → r j < j
  eq : ∀ j, 1 ≤ j → j ≤ k → D j = D (r j) + c (r j) j

namespace Inst
variable {I : Inst} {D : Nat → Int} {r : Nat → Nat}

/-- any arrangement of the first `m` fragments (m < n) costs at least the gap the first line
    would leave if it reached as far as `a` -/
theorem D_lower_chain (h : I.Hyp) {k : Nat} (hm : IsChainTo I.c D r k) :
    ∀ m, 1 ≤ m → m ≤ k → m < I.n → ∀ a, I.x m ≤ a → a ≤ I.T0 → hcost I.O I.T0 a ≤ D m := by
  intro m
  induction m using Nat.strong_induction_on with
  | _ m ih =>
    intro h1 hmk hmn a hxa haT
    have hlt := hm.lt m h1 hmk
    rw [hm.eq m h1 hmk]
    rcases Nat.eq_zero_or_pos (r m) with h0 | hpos
    · rw [h0, hm.d0, c_notlast 0 m hmn]
      have : I.t 0 = I.T0 := by simp [t]
      rw [this]
      have hW : I.W 0 = 0 := rfl
      rw [hW, sub_zero]
      have := h_antitone_fit I.O I.T0 a (I.x m) hxa haT
      have := hy_nonneg h m
      have := h.P0
      linarith
    · have hx : I.x (r m) ≤ a := le_trans (x_mono h hpos (by omega) (by omega)) hxa
      have := ih (r m) hlt hpos (by omega) (by omega) a hx haT
      have := c_nonneg h (r m) m
      linarith

/-- Column-wise total monotonicity of the online cost matrix above the diagonal (strict form). -/
theorem tm_strict_chain (h : I.Hyp) {k : Nat} (hm : IsChainTo I.c D r k)
    (i i' j j' : Nat) (h1 : i < i') (hk : i' ≤ k) (h2 : i' < j) (h3 : j < j') (h4 : j' ≤ I.n) :
    D i' + I.c i' j < D i + I.c i j → D i' + I.c i' j' < D i + I.c i j' := by
  have hjn : j < I.n := by omega
  have ht' : I.t i' = I.T1 := by simp [t]; omega
  have hWii : I.W i ≤ I.W i' := W_mono h (by omega)
  have hxx : I.x j ≤ I.x j' := x_mono h (by omega) (by omega) h4
  have hO := h.O0
  rw [c_notlast i' j hjn, c_notlast i j hjn, ht']
  -- abbreviations
  obtain ⟨a, ha⟩ : ∃ a, a = I.x j - I.W i := ⟨_, rfl⟩
  obtain ⟨b, hb⟩ : ∃ b, b = I.x j - I.W i' := ⟨_, rfl⟩
  obtain ⟨d, hd⟩ : ∃ d, d = I.x j' - I.x j := ⟨_, rfl⟩
  have hab : b ≤ a := by linarith
  have hd0 : 0 ≤ d := by linarith
  have e1 : I.x j' - I.W i = a + d := by linarith
  have e2 : I.x j' - I.W i' = b + d := by linarith
  rw [← ha, ← hb]
  intro hprem
  by_cases hlast : j' < I.n
  · rw [c_notlast i' j' hlast, c_notlast i j' hlast, ht', e1, e2]
    by_cases hi : i = 0
    · subst hi
      have ht0 : I.t 0 = I.T0 := by simp [t]
      rw [ht0] at hprem ⊢
      rw [hm.d0] at hprem ⊢
      by_cases hfit : a ≤ I.T0
      · -- premise impossible
        exfalso
        have hW0 : I.W 0 = 0 := rfl
        have hxi' : I.x i' ≤ a := by
          rw [ha, hW0, sub_zero]; exact x_mono h (by omega) (by omega) (by omega)
        have := D_lower_chain h hm i' (by omega) hk (by omega) a hxi' hfit
        have := hcost_nonneg (O := I.O) (T := I.T1) (lw := b) hO
        have := hy_nonneg h j; have := h.P0
        linarith
      · have hs := h_slope I.O I.T1 b d hO hd0
        have e3 : hcost I.O I.T0 a = (a - I.T0) * I.O := by unfold hcost; simp; intro; omega
        have e4 : hcost I.O I.T0 (a + d) = (a + d - I.T0) * I.O := by
          unfold hcost; simp; intro; omega
        rw [e3] at hprem; rw [e4]
        nlinarith
    · have hti : I.t i = I.T1 := by simp [t, hi]
      rw [hti] at hprem ⊢
      have := h_convex I.O I.T1 a b d hO hab hd0
      linarith
  · have hne1 : i' + 1 ≠ j' := by omega
    have hne2 : i + 1 ≠ j' := by omega
    rw [c_last i' j' hlast hne1, c_last i j' hlast hne2, ht', e1, e2]
    by_cases hi : i = 0
    · subst hi
      have ht0 : I.t 0 = I.T0 := by simp [t]
      rw [ht0] at hprem ⊢
      rw [hm.d0] at hprem ⊢
      by_cases hfit : a ≤ I.T0
      · exfalso
        have hW0 : I.W 0 = 0 := rfl
        have hxi' : I.x i' ≤ a := by
          rw [ha, hW0, sub_zero]; exact x_mono h (by omega) (by omega) (by omega)
        have := D_lower_chain h hm i' (by omega) hk (by omega) a hxi' hfit
        have := hcost_nonneg (O := I.O) (T := I.T1) (lw := b) hO
        have := hy_nonneg h j; have := h.P0
        linarith
      · have hs := o_slope I.O I.T1 b d hO hd0
        have e3 : hcost I.O I.T0 a = (a - I.T0) * I.O := by unfold hcost; simp; intro; omega
        have e4 : ocost I.O I.T0 (a + d) = (a + d - I.T0) * I.O := by
          unfold ocost; simp; intro; omega
        rw [e3] at hprem; rw [e4]
        nlinarith
    · have hti : I.t i = I.T1 := by simp [t, hi]
      rw [hti] at hprem ⊢
      have := o_ge_h I.O I.T1 a b d hO hab hd0
      linarith

end Inst

end TW.Opt

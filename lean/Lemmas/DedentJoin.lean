/-
  `dedent` and `indent` as maps over the `'\n'`-separated pieces of the text (for text without
  carriage returns), the universal property of the margin, and what follows from it.
-/
import Lemmas.Unfill
namespace TW

/-! ### pieces -/

theorem splitLF_cons_noLF (a b : Text) (h : LF ∉ a) : splitLF (a ++ LF :: b) = a :: splitLF b := by
  induction a with
  | nil => simp [splitLF]
  | cons c cs ih =>
    have hc : c ≠ LF := fun e => h (by simp [e])
    have hcs : LF ∉ cs := fun e => h (by simp [e])
    simp only [List.cons_append, splitLF, hc, if_false, ih hcs, consHead]

theorem splitLF_of_noLF (a : Text) (h : LF ∉ a) : splitLF a = [a] := by
  induction a with
  | nil => rfl
  | cons c cs ih =>
    have hc : c ≠ LF := fun e => h (by simp [e])
    have hcs : LF ∉ cs := fun e => h (by simp [e])
    simp only [splitLF, hc, if_false, ih hcs, consHead]

theorem splitLF_joinWith (ls : List Text) (hne : ls ≠ []) (hno : ∀ l ∈ ls, LF ∉ l) :
    splitLF (joinWith [LF] ls) = ls := by
  induction ls with
  | nil => exact absurd rfl hne
  | cons a r ih =>
    cases r with
    | nil => simpa [joinWith] using splitLF_of_noLF a (hno a (by simp))
    | cons b r' =>
      rw [joinWith_cons_cons]
      have : a ++ [LF] ++ joinWith [LF] (b :: r') = a ++ LF :: joinWith [LF] (b :: r') := by simp
      rw [this, splitLF_cons_noLF a _ (hno a (by simp)), ih (by simp) (fun l hl => hno l (by simp [hl]))]

theorem splitLF_sub (t : Text) : ∀ p ∈ splitLF t, ∀ c ∈ p, c ∈ t := by
  induction t with
  | nil => simp [splitLF]
  | cons d ds ih =>
    intro p hp c hc
    simp only [splitLF] at hp
    split at hp
    · rcases List.mem_cons.mp hp with rfl | hp
      · simp at hc
      · exact List.mem_cons_of_mem _ (ih p hp c hc)
    · cases hs : splitLF ds with
      | nil => exact absurd hs (splitLF_ne_nil ds)
      | cons a r =>
        rw [hs] at hp ih
        simp only [consHead] at hp
        rcases List.mem_cons.mp hp with rfl | hp
        · rcases List.mem_cons.mp hc with rfl | hc
          · simp
          · exact List.mem_cons_of_mem _ (ih a (by simp) c hc)
        · exact List.mem_cons_of_mem _ (ih p (by simp [hp]) c hc)

theorem joinWith_sub (sep : Text) (ls : List Text) :
    ∀ c ∈ joinWith sep ls, c ∈ sep ∨ ∃ l ∈ ls, c ∈ l := by
  induction ls with
  | nil => simp [joinWith]
  | cons a r ih =>
    cases r with
    | nil => intro c hc; exact Or.inr ⟨a, by simp, by simpa [joinWith] using hc⟩
    | cons b r' =>
      intro c hc
      rw [joinWith_cons_cons] at hc
      rcases List.mem_append.mp hc with hc | hc
      · rcases List.mem_append.mp hc with hc | hc
        · exact Or.inr ⟨a, by simp, hc⟩
        · exact Or.inl hc
      · rcases ih c hc with h | ⟨l, hl, hcl⟩
        · exact Or.inl h
        · exact Or.inr ⟨l, by simp [hl], hcl⟩

theorem stripCR_noCR (p : Text) (h : CR ∉ p) : stripCR p = p := by
  unfold stripCR
  split
  · next hl => exact absurd (List.mem_of_getLast? hl) h
  · rfl

/-- `unlines` of a list: every element followed by `'\n'` -/
def unlines (ls : List Text) : Text := (ls.map (· ++ [LF])).flatten

theorem unlines_eq_join (ls : List Text) : unlines ls = joinWith [LF] (ls ++ [[]]) := by
  induction ls with
  | nil => rfl
  | cons a r ih =>
    cases r with
    | nil => simp [unlines, joinWith]
    | cons b r' =>
      simp only [unlines, List.map_cons, List.flatten_cons, List.cons_append] at ih ⊢
      rw [joinWith_cons_cons, ← ih]

theorem unlines_dropLast (ls : List Text) (hne : ls ≠ []) :
    (unlines ls).dropLast = joinWith [LF] ls := by
  induction ls with
  | nil => exact absurd rfl hne
  | cons a r ih =>
    cases r with
    | nil => simp [unlines, joinWith]
    | cons b r' =>
      have h := ih (by simp)
      rw [joinWith_cons_cons, ← h]
      simp only [unlines, List.map_cons, List.flatten_cons]
      have hne' : (b ++ [LF]) ++ (r'.map (· ++ [LF])).flatten ≠ [] := by simp
      rw [List.dropLast_append_of_ne_nil hne']

theorem unlines_getLast (ls : List Text) (hne : ls ≠ []) : (unlines ls).getLast? = some LF := by
  induction ls with
  | nil => exact absurd rfl hne
  | cons a r ih =>
    cases r with
    | nil => simp [unlines]
    | cons b r' =>
      have h := ih (by simp)
      simp only [unlines, List.map_cons, List.flatten_cons] at h ⊢
      rw [List.getLast?_append, h]; rfl

/-! ### blank lines and the line images -/

theorem nonblank_append_ws (isWs : Char → Bool) (p l : Text) (hp : p.all isWs = true) :
    nonblank isWs (p ++ l) = nonblank isWs l := by
  simp [nonblank, List.all_append, hp]

theorem nonblank_nil (isWs : Char → Bool) : nonblank isWs [] = false := by simp [nonblank]

theorem drop_of_prefix {m l : Text} (h : m <+: l) : m ++ l.drop m.length = l := by
  obtain ⟨r, rfl⟩ := h
  simp

theorem nonblank_drop (isWs : Char → Bool) (m l : Text) (hm : m.all isWs = true) (h : m <+: l) :
    nonblank isWs (l.drop m.length) = nonblank isWs l := by
  conv => rhs; rw [← drop_of_prefix h]
  rw [nonblank_append_ws isWs m _ hm]

end TW

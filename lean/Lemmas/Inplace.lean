/-
  `fill_inplace`: the newline positions as a list of segments.
-/
import TextwrapModel.Wrap
import Lemmas.Pipeline
import Lemmas.Reassemble
import Lemmas.FirstFit
import Lemmas.Split
namespace TW

/-- a stretch of the text that is kept, or a stretch `x` followed by one space that becomes a
    newline -/
inductive ISeg where
  | keep (t : Text)
  | cut (x : Text)

def segIn : List ISeg → Text
  | [] => []
  | .keep t :: r => t ++ segIn r
  | .cut x :: r => x ++ [SP] ++ segIn r

def segOut : List ISeg → Text
  | [] => []
  | .keep t :: r => t ++ segOut r
  | .cut x :: r => x ++ [LF] ++ segOut r

/-- byte offsets of the spaces that get replaced, for segments starting at offset `off` -/
def segIdx : Nat → List ISeg → List Nat
  | _, [] => []
  | off, .keep t :: r => segIdx (off + blen t) r
  | off, .cut x :: r => (off + blen x) :: segIdx (off + blen x + 1) r

theorem setNewlineAt_append (a b : Text) : setNewlineAt (a ++ SP :: b) (blen a) = some (a ++ LF :: b) := by
  induction a with
  | nil =>
    have : SP.utf8Size = 1 := by decide
    simp [setNewlineAt, this]
  | cons c cs ih =>
    have hp := utf8Size_pos c
    simp only [List.cons_append, blen_cons]
    obtain ⟨k, hk⟩ : ∃ k, c.utf8Size + blen cs = k + 1 := ⟨c.utf8Size + blen cs - 1, by omega⟩
    rw [hk]
    simp only [setNewlineAt]
    have h1 : c.utf8Size ≤ k + 1 := by omega
    have h2 : k + 1 - c.utf8Size = blen cs := by omega
    simp [h1, h2, ih]

theorem apply_cuts (pre : Text) (segs : List ISeg) :
    (segIdx (blen pre) segs).foldl (fun acc i => acc.bind (setNewlineAt · i)) (some (pre ++ segIn segs)) =
      some (pre ++ segOut segs) := by
  induction segs generalizing pre with
  | nil => simp [segIdx, segIn, segOut]
  | cons s r ih =>
    cases s with
    | keep t =>
      simp only [segIdx, segIn, segOut]
      have := ih (pre ++ t)
      simpa [List.append_assoc] using this
    | cut x =>
      simp only [segIdx, segIn, segOut, List.foldl_cons]
      have h1 : setNewlineAt (pre ++ (x ++ [SP] ++ segIn r)) (blen pre + blen x) =
          some ((pre ++ x) ++ LF :: segIn r) := by
        have := setNewlineAt_append (pre ++ x) (segIn r)
        simpa [List.append_assoc] using this
      simp only [Option.bind_some, h1]
      have hlf : LF.utf8Size = 1 := by decide
      have := ih (pre ++ x ++ [LF])
      simp only [blen_append, blen_cons, blen_nil, hlf] at this
      have e : blen pre + blen x + (1 + 0) = blen pre + blen x + 1 := by omega
      rw [e] at this
      simpa [List.append_assoc] using this

theorem blen_segOut (segs : List ISeg) : blen (segOut segs) = blen (segIn segs) := by
  induction segs with
  | nil => rfl
  | cons s r ih =>
    cases s with
    | keep t => simp [segIn, segOut, ih]
    | cut x =>
      have h1 : LF.utf8Size = 1 := by decide
      have h2 : SP.utf8Size = 1 := by decide
      simp [segIn, segOut, ih, h1, h2]

/-- `b` is `a` with some spaces replaced by newlines, position by position -/
inductive SpToLF : Text → Text → Prop
  | nil : SpToLF [] []
  | same (c : Char) {a b : Text} : SpToLF a b → SpToLF (c :: a) (c :: b)
  | repl {a b : Text} : SpToLF a b → SpToLF (SP :: a) (LF :: b)

theorem SpToLF.refl (t : Text) : SpToLF t t := by
  induction t with
  | nil => exact .nil
  | cons c cs ih => exact .same c ih

theorem SpToLF.append {a b c d : Text} (h1 : SpToLF a b) (h2 : SpToLF c d) : SpToLF (a ++ c) (b ++ d) := by
  induction h1 with
  | nil => exact h2
  | same x _ ih => exact .same x ih
  | repl _ ih => exact .repl ih

theorem segs_spToLF (segs : List ISeg) : SpToLF (segIn segs) (segOut segs) := by
  induction segs with
  | nil => exact .nil
  | cons s r ih =>
    cases s with
    | keep t => exact (SpToLF.refl t).append ih
    | cut x =>
      simp only [segIn, segOut, List.append_assoc]
      exact (SpToLF.refl x).append (.repl ih)

/-- segments of one paragraph: every group but the last ends in a space that becomes a newline -/
def paraSegs : List (List Word) → List ISeg
  | [] => []
  | [g] => [.keep (wordsText g)]
  | g :: g2 :: gs => .cut (wordsText g).dropLast :: paraSegs (g2 :: gs)

theorem paraSegs_in (groups : List (List Word))
    (h : ∀ pre g post, groups = pre ++ g :: post → post ≠ [] → (wordsText g).getLast? = some SP) :
    segIn (paraSegs groups) = wordsText groups.flatten := by
  match groups with
  | [] => rfl
  | [g] => simp [paraSegs, segIn]
  | g :: g2 :: gs =>
    have hg := h [] g (g2 :: gs) rfl (by simp)
    obtain ⟨x, hx⟩ := List.getLast?_eq_some_iff.mp hg
    have ih := paraSegs_in (g2 :: gs) (fun pre g' post he hp => h (g :: pre) g' post (by simp [he]) hp)
    simp only [paraSegs, segIn, ih, List.flatten_cons, wordsText_append]
    rw [hx]; simp

theorem inplaceIndices_eq (groups : List (List Word)) (off : Nat)
    (h : ∀ pre g post, groups = pre ++ g :: post → post ≠ [] → (wordsText g).getLast? = some SP) :
    inplaceIndices groups off = some (segIdx off (paraSegs groups)) := by
  match groups with
  | [] => rfl
  | [g] => simp [inplaceIndices, paraSegs, segIdx]
  | g :: g2 :: gs =>
    have hg := h [] g (g2 :: gs) rfl (by simp)
    obtain ⟨x, hx⟩ := List.getLast?_eq_some_iff.mp hg
    have ih := inplaceIndices_eq (g2 :: gs) (off + blen (wordsText g))
      (fun pre g' post he hp => h (g :: pre) g' post (by simp [he]) hp)
    have hsum : (g.map fun w => blen w.word + blen w.ws).sum = blen (wordsText g) := sum_blen g
    have hsp : SP.utf8Size = 1 := by decide
    have hb : blen (wordsText g) = blen x + 1 := by rw [hx]; simp [hsp]
    simp only [inplaceIndices, hsum, paraSegs, segIdx]
    have hne : ¬ (off + blen (wordsText g) = 0) := by omega
    simp only [hne, if_false, ih]
    have hx' : (wordsText g).dropLast = x := by rw [hx]; simp
    rw [hx', hb]
    simp [Nat.add_assoc]

end TW

namespace TW

theorem segIdx_append (off : Nat) (a b : List ISeg) :
    segIdx off (a ++ b) = segIdx off a ++ segIdx (off + blen (segIn a)) b := by
  induction a generalizing off with
  | nil => simp [segIdx, segIn]
  | cons s r ih =>
    cases s with
    | keep t => simp [segIdx, segIn, ih, Nat.add_assoc]
    | cut x =>
      have hsp : SP.utf8Size = 1 := by decide
      simp [segIdx, segIn, ih, hsp, Nat.add_assoc]

theorem segIn_append (a b : List ISeg) : segIn (a ++ b) = segIn a ++ segIn b := by
  induction a with
  | nil => rfl
  | cons s r ih => cases s <;> simp [segIn, ih]

theorem segOut_append (a b : List ISeg) : segOut (a ++ b) = segOut a ++ segOut b := by
  induction a with
  | nil => rfl
  | cons s r ih => cases s <;> simp [segOut, ih]

/-- every ASCII word that is followed by another has at least one trailing space -/
theorem ascii_nonlast_ws (cw : Char → Nat) (line : Text) :
    ∀ a w b, findWordsAscii cw line = a ++ w :: b → b ≠ [] → w.ws ≠ [] := by
  intro a w b h hb
  unfold findWordsAscii at h
  have hcuts := asciiGo_cuts [] false line (by simp) (by simp [noBreakInside])
  -- split the piece list like the word list
  obtain ⟨pa, p, pb, hp, rfl, hpb⟩ : ∃ pa p pb, asciiGo [] false line = pa ++ p :: pb ∧ w = Word.from cw p ∧ pb ≠ [] := by
    have := List.map_eq_append_iff.mp h
    obtain ⟨l1, l2, e1, e2, e3⟩ := this
    cases l2 with
    | nil => simp at e3
    | cons p pb =>
      simp only [List.map_cons, List.cons.injEq] at e3
      refine ⟨l1, p, pb, e1, e3.1.symm, ?_⟩
      intro he; subst he; simp at e3; first | exact hb e3.2 | exact hb e3.2.symm
  -- `p` is followed by another piece, so it ends in a space
  have hend : p.getLast? = some SP := by
    clear h
    revert hcuts
    generalize asciiGo [] false line = ps at hp
    intro hcuts
    induction pa generalizing ps with
    | nil =>
      subst hp
      cases pb with
      | nil => exact absurd rfl hpb
      | cons q r => exact hcuts.2.1
    | cons x xs ih =>
      subst hp
      cases xs with
      | nil => exact ih (p :: pb) rfl hcuts.2.2.2
      | cons y ys => exact ih (y :: ys ++ p :: pb) rfl hcuts.2.2.2
  intro hws
  have := Word.from_lossless cw p
  rw [hws, List.append_nil] at this
  have hno := trimEndSp_no_trailing p
  simp only [Word.from] at this
  rw [this] at hno
  exact hno hend

theorem wordsText_getLast_sp (g : List Word) (w : Word) (pre : List Word) (hg : g = pre ++ [w])
    (hws : w.ws ≠ []) (hsp : ∀ c ∈ w.ws, c = SP) : (wordsText g).getLast? = some SP := by
  subst hg
  simp only [wordsText_append, wordsText_cons, wordsText_nil, List.append_nil]
  obtain ⟨ys, hy⟩ : ∃ ys, w.ws = ys ++ [w.ws.getLast hws] := ⟨_, (List.dropLast_concat_getLast hws).symm⟩
  have hl : w.ws.getLast hws = SP := hsp _ (List.getLast_mem hws)
  rw [hy, hl]
  simp [← List.append_assoc]

/-- in a partition of the ASCII words into non-empty groups, the text of every group but the
    last ends in a space -/
theorem groups_end_sp (cw : Char → Nat) (line : Text) (groups : List (List Word))
    (hflat : groups.flatten = findWordsAscii cw line) (hne : ∀ g ∈ groups, g ≠ []) :
    ∀ pre g post, groups = pre ++ g :: post → post ≠ [] → (wordsText g).getLast? = some SP := by
  intro pre g post hg hpost
  have hgne : g ≠ [] := hne g (by rw [hg]; simp)
  obtain ⟨gi, w, rfl⟩ : ∃ gi w, g = gi ++ [w] := ⟨g.dropLast, g.getLast hgne, (List.dropLast_concat_getLast hgne).symm⟩
  have hpf : post.flatten ≠ [] := by
    cases post with
    | nil => exact absurd rfl hpost
    | cons q r =>
      have : q ≠ [] := hne q (by rw [hg]; simp)
      simp [this]
  have hw : findWordsAscii cw line = (pre.flatten ++ gi) ++ w :: post.flatten := by
    rw [← hflat, hg]; simp
  have hws := ascii_nonlast_ws cw line _ w _ hw hpf
  have hsp : ∀ c ∈ w.ws, c = SP := by
    have : w ∈ findWordsAscii cw line := by rw [hw]; simp
    obtain ⟨t, _, rfl⟩ := List.mem_map.mp this
    exact trimEndSp_rest_spaces t
  exact wordsText_getLast_sp _ w gi rfl hws hsp

section
variable (α : Type) [CostNum α]

/-- the groups `fill_inplace` computes for one paragraph -/
def inplaceGroups (cw : Char → Nat) (width : Nat) (p : Text) : List (List Word) :=
  wrapFirstFit (fragOf (α := α)) (findWordsAscii cw p) [CostNum.ofNat width]

/-- the segments of the whole text -/
def textSegs (cw : Char → Nat) (width : Nat) : List Text → List ISeg
  | [] => []
  | [p] => paraSegs (inplaceGroups α cw width p)
  | p :: q :: r => paraSegs (inplaceGroups α cw width p) ++ [ISeg.keep [LF]] ++ textSegs cw width (q :: r)

theorem inplaceGroups_ok (cw : Char → Nat) (width : Nat) (p : Text) :
    (inplaceGroups α cw width p).flatten = findWordsAscii cw p ∧
    (∀ pre g post, inplaceGroups α cw width p = pre ++ g :: post → post ≠ [] →
      (wordsText g).getLast? = some SP) := by
  have hflat : (inplaceGroups α cw width p).flatten = findWordsAscii cw p := by
    simp [inplaceGroups, wrapFirstFit, ffGo_flatten]
  refine ⟨hflat, ?_⟩
  by_cases hw : findWordsAscii cw p = []
  · -- no words: one empty group, nothing to cut
    intro pre g post hg hpost
    exfalso
    have : inplaceGroups α cw width p = [[]] := by simp [inplaceGroups, hw, wrapFirstFit, ffGo]
    rw [this] at hg
    cases pre with
    | nil => simp at hg; first | exact hpost hg.2 | exact hpost hg.2.symm
    | cons x xs => simp at hg
  · exact groups_end_sp cw p _ hflat (ffGo_nonempty _ _ _ 0 [] 0 _ (Or.inr hw))

theorem paraSegs_text (cw : Char → Nat) (width : Nat) (p : Text) :
    segIn (paraSegs (inplaceGroups α cw width p)) = p := by
  obtain ⟨h1, h2⟩ := inplaceGroups_ok α cw width p
  rw [paraSegs_in _ h2, h1, findWordsAscii_text]

theorem textSegs_in (cw : Char → Nat) (width : Nat) (paras : List Text) :
    segIn (textSegs α cw width paras) = joinWith [LF] paras := by
  match paras with
  | [] => rfl
  | [p] => simp [textSegs, joinWith, paraSegs_text]
  | p :: q :: r =>
    have ih := textSegs_in cw width (q :: r)
    simp only [textSegs, segIn_append, paraSegs_text, segIn, ih, joinWith_cons_cons]
    simp

theorem inplaceParas_eq (cw : Char → Nat) (width : Nat) (paras : List Text) (off : Nat) :
    inplaceParas α cw width paras off = some (segIdx off (textSegs α cw width paras)) := by
  match paras with
  | [] => rfl
  | [p] =>
    obtain ⟨_, h2⟩ := inplaceGroups_ok α cw width p
    simp only [inplaceParas, textSegs]
    have := inplaceIndices_eq (inplaceGroups α cw width p) off h2
    simp only [inplaceGroups] at this ⊢
    rw [this]; simp
  | p :: q :: r =>
    obtain ⟨_, h2⟩ := inplaceGroups_ok α cw width p
    have ih := inplaceParas_eq cw width (q :: r) (off + blen p + 1)
    have h1 := inplaceIndices_eq (inplaceGroups α cw width p) off h2
    have hpt := paraSegs_text α cw width p
    simp only [inplaceGroups] at h1 hpt
    simp only [inplaceParas] at ih ⊢
    rw [h1, ih]
    have hlf : LF.utf8Size = 1 := by decide
    simp only [textSegs, inplaceGroups, segIdx_append, segIn_append, hpt, segIn, segIdx, List.append_nil,
      blen_append, blen_cons, blen_nil, hlf]
    simp [Nat.add_assoc]

/-- **`fill_inplace` never panics and its result is the text with the cut spaces replaced** -/
theorem fillInplace_eq (cw : Char → Nat) (text : Text) (width : Nat) :
    fillInplace α cw text width = some (segOut (textSegs α cw width (splitLF text))) ∧
      segIn (textSegs α cw width (splitLF text)) = text := by
  have hin := textSegs_in α cw width (splitLF text)
  rw [joinWith_splitLF] at hin
  refine ⟨?_, hin⟩
  unfold fillInplace
  rw [inplaceParas_eq]
  have := apply_cuts [] (textSegs α cw width (splitLF text))
  simp only [blen_nil, List.nil_append, hin] at this
  exact this

end
end TW

/-
  Lemmas about the escape skipper: width bound, additivity with state, ESC-free text,
  and the token grammar of well-formed sequences.
-/
import TextwrapModel.Ansi
import Lemmas.Bytes
namespace TW

theorem dwFrom_le_blen (cw : Char → Nat) (h : ∀ c, cw c ≤ c.utf8Size) (s : Ansi) (t : Text) :
    dwFrom cw s t ≤ blen t := by
  induction t generalizing s with
  | nil => simp [dwFrom]
  | cons c cs ih =>
    simp only [dwFrom, blen_cons]
    have := ih (s.step c).1
    have := h c
    split <;> omega

theorem dwFrom_append (cw : Char → Nat) (s : Ansi) (a b : Text) :
    dwFrom cw s (a ++ b) = dwFrom cw s a + dwFrom cw (s.run a) b := by
  induction a generalizing s with
  | nil => simp [dwFrom, Ansi.run]
  | cons c cs ih => simp [dwFrom, Ansi.run, ih, Nat.add_assoc]

theorem run_append (s : Ansi) (a b : Text) : s.run (a ++ b) = (s.run a).run b := by
  induction a generalizing s with
  | nil => rfl
  | cons c cs ih => simp [Ansi.run, ih]

theorem stripFrom_append (s : Ansi) (a b : Text) :
    stripFrom s (a ++ b) = stripFrom s a ++ stripFrom (s.run a) b := by
  induction a generalizing s with
  | nil => simp [stripFrom, Ansi.run]
  | cons c cs ih =>
    simp only [List.cons_append, stripFrom, Ansi.run, ih]
    split <;> simp

/-- ESC-free text keeps the skipper in state `normal`, every char is visible -/
theorem run_normal_escfree (t : Text) (h : ∀ c ∈ t, c ≠ ESC) : Ansi.run .normal t = .normal := by
  induction t with
  | nil => rfl
  | cons c cs ih =>
    have hc : c ≠ ESC := h c (by simp)
    simp only [Ansi.run, Ansi.step, hc, if_false]
    exact ih (fun d hd => h d (by simp [hd]))

theorem dwFrom_normal_escfree (cw : Char → Nat) (t : Text) (h : ∀ c ∈ t, c ≠ ESC) :
    dwFrom cw .normal t = (t.map cw).sum := by
  induction t with
  | nil => rfl
  | cons c cs ih =>
    have hc : c ≠ ESC := h c (by simp)
    simp only [dwFrom, Ansi.step, hc, if_false, List.map_cons, List.sum_cons]
    rw [ih (fun d hd => h d (by simp [hd]))]
    simp

theorem stripFrom_normal_escfree (t : Text) (h : ∀ c ∈ t, c ≠ ESC) : stripFrom .normal t = t := by
  induction t with
  | nil => rfl
  | cons c cs ih =>
    have hc : c ≠ ESC := h c (by simp)
    simp only [stripFrom, Ansi.step, hc, if_false]
    rw [ih (fun d hd => h d (by simp [hd]))]
    simp

/-- only a character met in state `normal` can be visible -/
theorem step_visible_normal (s : Ansi) (c : Char) (h : (s.step c).2 = true) : s = .normal := by
  cases s with
  | normal => rfl
  | esc => simp only [Ansi.step] at h; split at h <;> (try split at h) <;> simp at h
  | csi => simp only [Ansi.step] at h; split at h <;> simp at h
  | osc l => simp only [Ansi.step] at h; split at h <;> simp at h

/-! ### the token grammar of well-formed text -/

/-- OSC payload that does not terminate early: no BEL, and no `\` directly after an ESC
    (`l` = the char before the payload was ESC) -/
def oscBodyOk : Bool → Text → Bool
  | _, [] => true
  | l, c :: cs => c != BEL && !(c == '\\' && l) && oscBodyOk (decide (c = ESC)) cs

/-- how an OSC sequence ends -/
inductive OscEnd where
  | bel
  | st       -- `ESC \`
  deriving DecidableEq, Repr

def OscEnd.text : OscEnd → Text
  | .bel => [BEL]
  | .st => [ESC, '\\']

/-- one token of well-formed text -/
inductive Seg where
  | ch (c : Char)                                   -- a visible char, `c ≠ ESC`
  | csi (params : Text) (final : Char)              -- `ESC [ params final`
  | osc (body : Text) (e : OscEnd)                  -- `ESC ] body (BEL | ESC \)`

def Seg.ok : Seg → Bool
  | .ch c => c != ESC
  | .csi params final => params.all (fun c => !isFinalByte c) && isFinalByte final
  | .osc body _ => oscBodyOk false body

def Seg.render : Seg → Text
  | .ch c => [c]
  | .csi params final => [ESC, '['] ++ params ++ [final]
  | .osc body e => [ESC, ']'] ++ body ++ e.text

def Seg.visible : Seg → Text
  | .ch c => [c]
  | _ => []

def renderSegs (l : List Seg) : Text := (l.map Seg.render).flatten
def visibleSegs (l : List Seg) : Text := (l.map Seg.visible).flatten

theorem csi_params (cw : Char → Nat) (p : Text) (h : p.all (fun c => !isFinalByte c) = true) :
    Ansi.run .csi p = .csi ∧ dwFrom cw .csi p = 0 ∧ stripFrom .csi p = [] := by
  induction p with
  | nil => simp [Ansi.run, dwFrom, stripFrom]
  | cons c cs ih =>
    simp only [List.all_cons, Bool.and_eq_true, Bool.not_eq_true'] at h
    have := ih (by simpa using h.2)
    simp [Ansi.run, dwFrom, stripFrom, Ansi.step, h.1, this]

theorem osc_body (cw : Char → Nat) (l : Bool) (b : Text) (h : oscBodyOk l b = true) :
    ∃ l', Ansi.run (.osc l) b = .osc l' ∧ dwFrom cw (.osc l) b = 0 ∧ stripFrom (.osc l) b = [] := by
  induction b generalizing l with
  | nil => exact ⟨l, by simp [Ansi.run, dwFrom, stripFrom]⟩
  | cons c cs ih =>
    simp only [oscBodyOk, Bool.and_eq_true, bne_iff_ne, ne_eq, Bool.not_eq_true'] at h
    obtain ⟨⟨h1, h2⟩, h3⟩ := h
    obtain ⟨l', r1, r2, r3⟩ := ih _ h3
    have hstep : (Ansi.osc l).step c = (.osc (decide (c = ESC)), false) := by
      simp only [Ansi.step]
      have hb : (decide (c = BEL) || (decide (c = '\\') && l)) = false := by
        cases l <;> simp_all
      simp [hb]
    refine ⟨l', ?_, ?_, ?_⟩
    · simp only [Ansi.run, hstep]; simpa using r1
    · simp only [dwFrom, hstep]; simpa using r2
    · simp only [stripFrom, hstep]; simpa using r3

theorem osc_end (cw : Char → Nat) (l : Bool) (e : OscEnd) :
    Ansi.run (.osc l) e.text = .normal ∧ dwFrom cw (.osc l) e.text = 0 ∧ stripFrom (.osc l) e.text = [] := by
  cases e <;> simp [OscEnd.text, Ansi.run, dwFrom, stripFrom, Ansi.step, BEL, ESC]

/-- a well-formed token takes the skipper from `normal` back to `normal` and contributes the
    width of its visible part -/
theorem seg_step (cw : Char → Nat) (g : Seg) (h : g.ok = true) :
    Ansi.run .normal g.render = .normal ∧
    dwFrom cw .normal g.render = (g.visible.map cw).sum ∧
    stripFrom .normal g.render = g.visible := by
  cases g with
  | ch c =>
    have hc : c ≠ ESC := by simpa [Seg.ok] using h
    simp [Seg.render, Seg.visible, Ansi.run, dwFrom, stripFrom, Ansi.step, hc]
  | csi p f =>
    simp only [Seg.ok, Bool.and_eq_true] at h
    obtain ⟨r1, r2, r3⟩ := csi_params cw p h.1
    have e1 : Ansi.normal.step ESC = (.esc, false) := by simp [Ansi.step]
    have e2 : Ansi.esc.step '[' = (.csi, false) := by simp [Ansi.step]
    have e3 : Ansi.csi.step f = (.normal, false) := by simp [Ansi.step, h.2]
    simp only [Seg.render, Seg.visible, List.cons_append, List.nil_append, Ansi.run, dwFrom, stripFrom,
      e1, e2, run_append, dwFrom_append, stripFrom_append, r1, r2, r3, e3]
    simp
  | osc b e =>
    simp only [Seg.ok] at h
    obtain ⟨l', r1, r2, r3⟩ := osc_body cw false b h
    obtain ⟨q1, q2, q3⟩ := osc_end cw l' e
    have e1 : Ansi.normal.step ESC = (.esc, false) := by simp [Ansi.step]
    have e2 : Ansi.esc.step ']' = (.osc false, false) := by simp [Ansi.step]
    simp only [Seg.render, Seg.visible, List.cons_append, List.nil_append, Ansi.run, dwFrom, stripFrom,
      e1, e2, run_append, dwFrom_append, stripFrom_append, r1, r2, r3, q1, q2, q3]
    simp

theorem segs_run (cw : Char → Nat) (l : List Seg) (h : ∀ g ∈ l, g.ok = true) :
    Ansi.run .normal (renderSegs l) = .normal ∧
    dwFrom cw .normal (renderSegs l) = ((visibleSegs l).map cw).sum ∧
    stripFrom .normal (renderSegs l) = visibleSegs l := by
  induction l with
  | nil => simp [renderSegs, visibleSegs, Ansi.run, dwFrom, stripFrom]
  | cons g gs ih =>
    obtain ⟨a1, a2, a3⟩ := seg_step cw g (h g (by simp))
    obtain ⟨b1, b2, b3⟩ := ih (fun x hx => h x (by simp [hx]))
    simp only [renderSegs, visibleSegs, List.map_cons, List.flatten_cons] at *
    refine ⟨?_, ?_, ?_⟩
    · rw [run_append, a1, b1]
    · rw [dwFrom_append, a1, a2, b2]; simp
    · rw [stripFrom_append, a1, a3, b3]

end TW

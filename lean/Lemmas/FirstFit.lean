/-
  Lemmas about `wrap_first_fit`, for any number type (no order or arithmetic laws).
-/
import TextwrapModel.Algo
namespace TW

section
variable {α : Type} [Add α] [LT α] [Zero α] [DecidableRel (α := α) (· < ·)] {β : Type}
variable (m : β → Frag α) (lws : List α) (dflt : α)

theorem ffGo_flatten (k : Nat) (cur : List β) (w : α) (fs : List β) :
    (ffGo m lws dflt k cur w fs).flatten = cur ++ fs := by
  induction fs generalizing k cur w with
  | nil => simp [ffGo]
  | cons f fs ih =>
    simp only [ffGo]
    split
    · simp [ih]
    · simp [ih]

theorem ffGo_nonempty (k : Nat) (cur : List β) (w : α) (fs : List β) (h : cur ≠ [] ∨ fs ≠ []) :
    ∀ l ∈ ffGo m lws dflt k cur w fs, l ≠ [] := by
  induction fs generalizing k cur w with
  | nil =>
    intro l hl
    simp only [ffGo, List.mem_singleton] at hl
    subst hl
    rcases h with h | h
    · exact h
    · exact absurd rfl h
  | cons f fs ih =>
    intro l hl
    simp only [ffGo] at hl
    split at hl
    · next hc =>
      rcases List.mem_cons.mp hl with h1 | h1
      · subst h1
        intro h2; subst h2; simp at hc
      · exact ih (k + 1) [f] _ (Or.inl (by simp)) l h1
    · exact ih k (cur ++ [f]) _ (Or.inl (by simp)) l hl

/-- accumulated width of a line: `acc₀ = 0`, `acc_{p+1} = acc_p + (w_p + ws_p)` -/
def lineAcc (l : List β) : α := l.foldl (fun acc f => acc + ((m f).w + (m f).ws)) 0

theorem lineAcc_append_singleton (l : List β) (f : β) :
    lineAcc m (l ++ [f]) = lineAcc m l + ((m f).w + (m f).ws) := by
  simp [lineAcc, List.foldl_append]

/-- from accumulated width `acc`, every listed fragment fits (`first`: the line's first fragment
    is exempt — it is placed unconditionally) -/
def fitsFrom (lw : α) : α → Bool → List β → Prop
  | _, _, [] => True
  | acc, first, f :: fs =>
    (first = true ∨ ¬ (lw < acc + (m f).w + (m f).pen)) ∧
      fitsFrom lw (acc + ((m f).w + (m f).ws)) false fs

/-- a line is consistent with greedy filling at line width `lw` -/
def lineFits (lw : α) (l : List β) : Prop := fitsFrom m lw 0 true l

theorem foldl_acc (acc : α) (l : List β) (f : β) :
    List.foldl (fun acc f => acc + ((m f).w + (m f).ws)) acc (l ++ [f]) =
      List.foldl (fun acc f => acc + ((m f).w + (m f).ws)) acc l + ((m f).w + (m f).ws) := by
  simp [List.foldl_append]

theorem fitsFrom_append_singleton (lw acc : α) (first : Bool) (l : List β) (f : β) :
    fitsFrom m lw acc first (l ++ [f]) ↔
      fitsFrom m lw acc first l ∧
        ((first = true ∧ l = []) ∨
          ¬ (lw < l.foldl (fun acc f => acc + ((m f).w + (m f).ws)) acc + (m f).w + (m f).pen)) := by
  induction l generalizing acc first with
  | nil => simp [fitsFrom]
  | cons g gs ih =>
    simp only [List.cons_append, fitsFrom, ih, List.foldl_cons]
    constructor
    · rintro ⟨h1, h2, h3⟩
      refine ⟨⟨h1, h2⟩, ?_⟩
      rcases h3 with h3 | h3
      · simp at h3
      · exact Or.inr h3
    · rintro ⟨⟨h1, h2⟩, h3⟩
      refine ⟨h1, h2, ?_⟩
      rcases h3 with h3 | h3
      · simp at h3
      · exact Or.inr h3

theorem fitsFrom_prefix (lw acc : α) (first : Bool) (a b : List β) :
    fitsFrom m lw acc first (a ++ b) → fitsFrom m lw acc first a := by
  induction a generalizing acc first with
  | nil => intro _; simp [fitsFrom]
  | cons g gs ih =>
    simp only [List.cons_append, fitsFrom]
    exact fun ⟨h1, h2⟩ => ⟨h1, ih _ _ h2⟩

theorem lineFits_append_singleton (lw : α) (l : List β) (f : β) :
    lineFits m lw (l ++ [f]) ↔
      lineFits m lw l ∧ (l = [] ∨ ¬ (lw < lineAcc m l + (m f).w + (m f).pen)) := by
  unfold lineFits lineAcc
  rw [fitsFrom_append_singleton]
  simp

/-- the lines are consistent with greedy filling: within a line every fragment but the first
    fits; the first fragment of the next line would not have fitted. `k` = index of the first
    listed line. -/
def GreedyLines : Nat → List (List β) → Prop
  | _, [] => True
  | k, [l] => lineFits m (lws.getD k dflt) l
  | k, l :: l2 :: rest =>
    lineFits m (lws.getD k dflt) l ∧
    (match l2 with
     | [] => True
     | g :: _ => lws.getD k dflt < lineAcc m l + (m g).w + (m g).pen) ∧
    GreedyLines (k + 1) (l2 :: rest)

theorem ffGo_head (k : Nat) (cur : List β) (w : α) (fs : List β) :
    ∃ x rest, ffGo m lws dflt k cur w fs = (cur ++ x) :: rest := by
  induction fs generalizing k cur w with
  | nil => exact ⟨[], [], by simp [ffGo]⟩
  | cons f fs ih =>
    simp only [ffGo]
    split
    · exact ⟨[], ffGo m lws dflt (k + 1) [f] (0 + ((m f).w + (m f).ws)) fs, by simp⟩
    · obtain ⟨x, rest, h⟩ := ih k (cur ++ [f]) (w + ((m f).w + (m f).ws))
      exact ⟨f :: x, rest, by simp [h]⟩

theorem GreedyLines_cons (k : Nat) (l : List β) (ls : List (List β)) (hls : ls ≠ []) :
    GreedyLines m lws dflt k (l :: ls) ↔
      lineFits m (lws.getD k dflt) l ∧
      (match ls.head? with
        | some (g :: _) => lws.getD k dflt < lineAcc m l + (m g).w + (m g).pen
        | _ => True) ∧
      GreedyLines m lws dflt (k + 1) ls := by
  cases ls with
  | nil => exact absurd rfl hls
  | cons l2 rest =>
    cases l2 <;> simp [GreedyLines]

/-- existence half of C07 -/
theorem ffGo_greedy (k : Nat) (cur : List β) (w : α) (fs : List β)
    (hw : w = lineAcc m cur) (hc : lineFits m (lws.getD k dflt) cur) :
    GreedyLines m lws dflt k (ffGo m lws dflt k cur w fs) := by
  induction fs generalizing k cur w with
  | nil => simpa [ffGo, GreedyLines] using hc
  | cons f fs ih =>
    simp only [ffGo]
    split
    · next hb =>
      have hne := (ffGo_head m lws dflt (k + 1) [f] (0 + ((m f).w + (m f).ws)) fs)
      obtain ⟨x, rest, hx⟩ := hne
      rw [GreedyLines_cons _ _ _ _ _ _ (by rw [hx]; simp)]
      refine ⟨hc, ?_, ?_⟩
      · rw [hx]; simp only [List.head?_cons, List.cons_append, List.nil_append]
        rw [← hw]; exact hb.1
      · apply ih
        · simp [lineAcc]
        · simp [lineFits, fitsFrom]
    · next hb =>
      apply ih
      · rw [lineAcc_append_singleton, hw]
      · rw [lineFits_append_singleton]
        refine ⟨hc, ?_⟩
        by_cases hcur : cur = []
        · exact Or.inl hcur
        · right
          intro hlt
          apply hb
          refine ⟨by rw [hw]; exact hlt, by simpa using hcur⟩

/-- uniqueness half of C07: a partition into non-empty lines that is consistent with greedy
    filling is the one first-fit returns -/
theorem ffGo_unique (k : Nat) (cur : List β) (w : α) (fs : List β) (hw : w = lineAcc m cur)
    (x : List β) (rest : List (List β))
    (hflat : ((cur ++ x) :: rest).flatten = cur ++ fs)
    (hne : ∀ l ∈ rest, l ≠ []) (hne0 : cur ++ x ≠ [] ∨ fs = [])
    (hg : GreedyLines m lws dflt k ((cur ++ x) :: rest)) :
    (cur ++ x) :: rest = ffGo m lws dflt k cur w fs := by
  induction fs generalizing k cur w x rest with
  | nil =>
    simp only [List.flatten_cons, List.append_assoc, List.append_nil] at hflat
    have h1 : x ++ rest.flatten = [] := by simpa using hflat
    have hx : x = [] := (List.append_eq_nil_iff.mp h1).1
    have hr : rest = [] := by
      cases rest with
      | nil => rfl
      | cons r rs =>
        have := (List.append_eq_nil_iff.mp h1).2
        simp only [List.flatten_cons, List.append_eq_nil_iff] at this
        exact absurd this.1 (hne r (by simp))
    subst hx hr
    simp [ffGo]
  | cons f fs ih =>
    simp only [List.flatten_cons, List.append_assoc] at hflat
    have h1 : x ++ rest.flatten = f :: fs := List.append_cancel_left hflat
    simp only [ffGo]
    split
    · next hb =>
      -- a break is taken: the first line is exactly `cur`
      have hx : x = [] := by
        cases x with
        | nil => rfl
        | cons y ys =>
          exfalso
          simp only [List.cons_append, List.cons.injEq] at h1
          obtain ⟨rfl, _⟩ := h1
          have hl : lineFits m (lws.getD k dflt) (cur ++ y :: ys) := by
            cases rest with
            | nil => simpa [GreedyLines] using hg
            | cons r rs => simp only [GreedyLines] at hg; exact hg.1
          have : cur ++ y :: ys = (cur ++ [y]) ++ ys := by simp
          rw [this] at hl
          -- the prefix `cur ++ [y]` fits
          have hpre : lineFits m (lws.getD k dflt) (cur ++ [y]) := fitsFrom_prefix m _ _ _ _ _ hl
          rcases ((lineFits_append_singleton m _ _ _).mp hpre).2 with h | h
          · simp [h] at hb
          · exact h (by rw [← hw]; exact hb.1)
      subst hx
      simp only [List.append_nil, List.nil_append] at h1 ⊢
      cases rest with
      | nil => simp at h1
      | cons r rs =>
        have hrne := hne r (by simp)
        cases r with
        | nil => exact absurd rfl hrne
        | cons g gs =>
          simp only [List.flatten_cons, List.cons_append, List.cons.injEq] at h1
          obtain ⟨rfl, h1⟩ := h1
          have hg2 := hg
          simp only [GreedyLines, List.append_nil] at hg2
          have := ih (k + 1) [g] (0 + ((m g).w + (m g).ws)) (by simp [lineAcc]) gs rs
            (by simp [h1]) (fun l hl => hne l (by simp [hl])) (Or.inl (by simp)) hg2.2.2
          simp only [List.cons_append, List.nil_append] at this
          rw [this]
    · next hb =>
      -- no break: the first line continues with `f`
      cases x with
      | nil =>
        exfalso
        simp only [List.nil_append] at h1
        cases rest with
        | nil => simp at h1
        | cons r rs =>
          have hrne := hne r (by simp)
          cases r with
          | nil => exact absurd rfl hrne
          | cons g gs =>
            simp only [List.flatten_cons, List.cons_append, List.cons.injEq] at h1
            obtain ⟨rfl, _⟩ := h1
            simp only [GreedyLines, List.append_nil] at hg
            have hcne : cur ≠ [] := by
              rcases hne0 with h | h
              · simpa using h
              · simp at h
            exact hb ⟨by rw [hw]; exact hg.2.1, by simpa using hcne⟩
      | cons y ys =>
        simp only [List.cons_append, List.cons.injEq] at h1
        obtain ⟨rfl, h1⟩ := h1
        have := ih k (cur ++ [y]) (w + ((m y).w + (m y).ws)) (by rw [lineAcc_append_singleton, hw]) ys rest
          (by simp [h1]) hne (Or.inl (by simp)) (by simpa using hg)
        simpa using this

end
end TW

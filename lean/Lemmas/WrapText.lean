/-
  The paragraph loop of `wrap` and the text-level decomposition.
-/
import Lemmas.WrapLine
namespace TW

/-- a gap between two slices: spaces, optionally followed by one line ending -/
def GapOK (e : Text) (g : Text) : Prop := ∃ sp, (∀ c ∈ sp, c = SP) ∧ (g = sp ∨ g = sp ++ e)

def shiftD (off : Nat) (d : LineD) : LineD := { d with start := d.start + off }

@[simp] theorem shiftD_render (off : Nat) (d : LineD) : (shiftD off d).render = d.render := rfl
@[simp] theorem shiftD_slice (off : Nat) (d : LineD) : (shiftD off d).slice = d.slice := rfl
@[simp] theorem shiftD_indent (off : Nat) (d : LineD) : (shiftD off d).indent = d.indent := rfl
@[simp] theorem shiftD_pen (off : Nat) (d : LineD) : (shiftD off d).pen = d.pen := rfl
@[simp] theorem shiftD_borrowed (off : Nat) (d : LineD) : (shiftD off d).borrowed = d.borrowed := rfl
@[simp] theorem shiftD_len (off : Nat) (d : LineD) : (shiftD off d).len = d.len := rfl

theorem Decomp_shift (off base : Nat) (l : List (LineD × Text)) (t : Text) (h : Decomp base l t) :
    Decomp (base + off) (l.map fun p => (shiftD off p.1, p.2)) t := by
  induction l generalizing base t with
  | nil => simpa [Decomp] using h
  | cons p r ih =>
    obtain ⟨d, gap⟩ := p
    obtain ⟨h1, h2, t', h3, h4⟩ := h
    refine ⟨by simp [shiftD, h1], h2, t', h3, ?_⟩
    have := ih _ _ h4
    simp only [shiftD_slice]
    have e : base + blen d.slice + blen gap + off = base + off + blen d.slice + blen gap := by omega
    rw [e] at this; exact this

theorem map_shift_zip (off : Nat) (ls : List LineD) (gp : List Text) :
    (ls.zip gp).map (fun q => (shiftD off q.1, q.2)) = (ls.map (shiftD off)).zip gp := by
  induction ls generalizing gp with
  | nil => simp
  | cons d r ih => cases gp <;> simp [ih]

/-- append the line ending to the last gap -/
def extendLast (e : Text) : List Text → List Text
  | [] => []
  | [g] => [g ++ e]
  | g :: h :: r => g :: extendLast e (h :: r)

theorem extendLast_length (e : Text) (gs : List Text) : (extendLast e gs).length = gs.length := by
  match gs with
  | [] => rfl
  | [g] => rfl
  | g :: h :: r => simp [extendLast, extendLast_length e (h :: r)]

theorem Decomp_append (e : Text) (off : Nat) (ds : List LineD) (gaps : List Text) (t1 : Text)
    (hlen : gaps.length = ds.length) (hne : ds ≠ []) (h1 : Decomp off (ds.zip gaps) t1)
    (l2 : List (LineD × Text)) (t2 : Text) (h2 : Decomp (off + blen t1 + blen e) l2 t2) :
    Decomp off (ds.zip (extendLast e gaps) ++ l2) (t1 ++ e ++ t2) := by
  induction ds generalizing off gaps t1 with
  | nil => exact absurd rfl hne
  | cons d r ih =>
    cases gaps with
    | nil => simp at hlen
    | cons g gs =>
      simp only [List.zip_cons_cons, Decomp] at h1
      obtain ⟨a1, a2, t', a3, a4⟩ := h1
      cases r with
      | nil =>
        have hgs : gs = [] := by
          cases gs with
          | nil => rfl
          | cons _ _ => simp at hlen
        subst hgs
        simp only [List.zip_nil_left, Decomp] at a4
        subst a4
        simp only [extendLast, List.zip_cons_cons, List.zip_nil_left, List.cons_append, List.nil_append, Decomp]
        refine ⟨a1, a2, t2, by rw [a3]; simp, ?_⟩
        have e1 : off + blen d.slice + blen (g ++ e) = off + blen t1 + blen e := by
          rw [a3]; simp; omega
        rw [e1]; exact h2
      | cons d2 r2 =>
        cases gs with
        | nil => simp at hlen
        | cons g2 gs2 =>
          simp only [extendLast, List.zip_cons_cons, List.cons_append, Decomp]
          refine ⟨a1, a2, t' ++ e ++ t2, by rw [a3]; simp, ?_⟩
          have := ih (off + blen d.slice + blen g) (g2 :: gs2) t' (by simpa using hlen) (by simp)
            (by simpa using a4)
            (by
              have e1 : off + blen d.slice + blen g + blen t' + blen e = off + blen t1 + blen e := by
                rw [a3]; simp; omega
              rw [e1]; exact h2)
          simpa using this

section
variable {α : Type}

/-- the paragraph loop, given what each paragraph's lines satisfy -/
theorem wrapParas_decomp (o : Opts) (e : Text) (single : Text → Nat → Option (List LineD))
    (hs : ∀ p n ls, single p n = some ls → LineSpec o p n ls)
    (paras : List Text) (off nPrev : Nat) (ds : List LineD)
    (h : wrapParas (blen e) single paras off nPrev = some ds) :
    ∃ gaps : List Text, gaps.length = ds.length ∧ Decomp off (ds.zip gaps) (joinWith e paras) ∧
      (∀ g ∈ gaps, GapOK e g) ∧ (paras ≠ [] → ds ≠ []) := by
  induction paras generalizing off nPrev ds with
  | nil =>
    simp only [wrapParas, Option.some.injEq] at h; subst h
    exact ⟨[], rfl, by simp [Decomp, joinWith], by simp, by simp⟩
  | cons p ps ih =>
    simp only [wrapParas] at h
    split at h
    · simp at h
    · next ls hls =>
      split at h
      · next rest hrest =>
        simp only [Option.some.injEq] at h; subst h
        obtain ⟨lne, ⟨gp, gl, gd, gsp⟩, _⟩ := hs p nPrev ls hls
        obtain ⟨gr, rl, rd, rg, _⟩ := ih _ _ rest hrest
        have hshift := Decomp_shift off 0 (ls.zip gp) p gd
        have hzip : (ls.zip gp).map (fun q => (shiftD off q.1, q.2)) = (ls.map (shiftD off)).zip gp :=
          map_shift_zip off ls gp
        rw [hzip, Nat.zero_add] at hshift
        have hmap : (ls.map fun d => { d with start := d.start + off }) = ls.map (shiftD off) := rfl
        rw [hmap]
        cases ps with
        | nil =>
          simp only [wrapParas, Option.some.injEq] at hrest; subst hrest
          refine ⟨gp, by simp [gl], ?_, ?_, ?_⟩
          · simpa [joinWith] using hshift
          · intro g hg; exact ⟨g, gsp g hg, Or.inl rfl⟩
          · intro _; simpa using lne
        | cons q qs =>
          refine ⟨extendLast e gp ++ gr, by simp [extendLast_length, gl, rl], ?_, ?_, ?_⟩
          · rw [joinWith_cons_cons]
            have hl : (ls.map (shiftD off)).length = (extendLast e gp).length := by
              simp [extendLast_length, gl]
            rw [List.zip_append hl]
            exact Decomp_append e off (ls.map (shiftD off)) gp p (by simp [gl]) (by simpa using lne)
              hshift _ _ rd
          · intro g hg
            rcases List.mem_append.mp hg with hg | hg
            · exact extendLast_gap e gp gsp g hg
            · exact rg g hg
          · intro _; simp; intro h1; exact absurd h1 lne
      · simp at h
where
  extendLast_gap (e : Text) (gp : List Text) (gsp : ∀ g ∈ gp, ∀ c ∈ g, c = SP) :
      ∀ g ∈ extendLast e gp, GapOK e g := by
    match gp with
    | [] => simp [extendLast]
    | [g0] =>
      intro g hg
      simp only [extendLast, List.mem_singleton] at hg; subst hg
      exact ⟨g0, gsp g0 (by simp), Or.inr rfl⟩
    | g0 :: g1 :: r =>
      intro g hg
      simp only [extendLast, List.mem_cons] at hg
      rcases hg with rfl | hg
      · exact ⟨g, gsp g (by simp), Or.inl rfl⟩
      · exact extendLast_gap e (g1 :: r) (fun x hx => gsp x (by simp [hx])) g (by simpa using hg)

end
end TW

namespace TW

theorem joinWith_splitEnding (e : LineEnding) (t : Text) : joinWith e.str (splitEnding e t) = t := by
  cases e with
  | lf => exact joinWith_splitLF t
  | crlf => exact joinWith_splitCRLF t

theorem splitEnding_ne_nil (e : LineEnding) (t : Text) : splitEnding e t ≠ [] := by
  cases e with
  | lf => exact splitLF_ne_nil t
  | crlf => exact splitCRLF_ne_nil t

/-- indents by global line index -/
theorem wrapParas_indent (o : Opts) (elen : Nat) (single : Text → Nat → Option (List LineD))
    (hs : ∀ p n ls, single p n = some ls → LineSpec o p n ls)
    (paras : List Text) (off nPrev : Nat) (ds : List LineD)
    (h : wrapParas elen single paras off nPrev = some ds) :
    ∀ k (d : LineD), ds[k]? = some d →
      d.indent = (if nPrev + k = 0 then o.initialIndent else o.subsequentIndent) ∧
      d.borrowed = (d.indent.isEmpty && d.pen.isEmpty) := by
  induction paras generalizing off nPrev ds with
  | nil => simp only [wrapParas, Option.some.injEq] at h; subst h; intro k d hk; simp at hk
  | cons p ps ih =>
    simp only [wrapParas] at h
    split at h
    · simp at h
    · next ls hls =>
      split at h
      · next rest hrest =>
        simp only [Option.some.injEq] at h; subst h
        intro k d hk
        have hspec := hs p nPrev ls hls
        by_cases hlt : k < ls.length
        · rw [List.getElem?_append_left (by simpa using hlt)] at hk
          simp only [List.getElem?_map, Option.map_eq_some_iff] at hk
          obtain ⟨d0, hd0, rfl⟩ := hk
          exact hspec.indent k d0 hd0
        · rw [List.getElem?_append_right (by simpa using Nat.le_of_not_lt hlt)] at hk
          simp only [List.length_map] at hk
          have := ih _ _ rest hrest (k - ls.length) d hk
          have e : nPrev + ls.length + (k - ls.length) = nPrev + k := by omega
          rw [e] at this; exact this
      · simp at h

end TW

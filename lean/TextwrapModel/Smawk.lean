/-
  Smawk: `smawk::online_column_minima` and `smawk_inner` (smawk 0.3.2, src/lib.rs:250-417) and
  the closure `wrap_optimal_fit` hands to it (optimal_fit.rs:319-368, `LineNumbers::get`
  optimal_fit.rs:160-182), so that the model of `wrap_optimal_fit` is self-contained: it
  computes its own column minima by the algorithm the crate really runs.

  Every Rust panic site is an explicit `none`: the two `assert!`s of the `m!` macro, every
  slice/vector index (`cols[..]`, `rows[r]`, `minima[..]`, `result[..]`), the unbounded
  recursion of `LineNumbers::get` on an ill-shaped prefix, the `size - 1` underflow.
-/
import TextwrapModel.Num
namespace TW

section Smawk
variable {α : Type} [CostNum α]

/-- `(a, x) < (b, y)` of `PartialOrd for (T, usize)` (lexicographic through `partial_cmp`) -/
def tupLt (a : α) (x : Nat) (b : α) (y : Nat) : Bool :=
  if a < b then true else if CostNum.eqv a b then decide (x < y) else false

/-- the `while !stack.is_empty() && matrix(stack[len-1], cols[len-1]) > matrix(r, cols[len-1])
    { stack.pop() }` loop; the stack is kept top-first. -/
def smawkPop (m : Nat → Nat → Option α) (cols : List Nat) (r : Nat) : List Nat → Option (List Nat)
  | [] => some []
  | top :: rest =>
    match cols[rest.length]? with
    | none => none
    | some c =>
      match m top c, m r c with
      | some a, some b => if b < a then smawkPop m cols r rest else some (top :: rest)
      | _, _ => none

/-- the `for r in rows` reduce loop of `smawk_inner`; returns the stack top-first -/
def smawkReduce (m : Nat → Nat → Option α) (cols : List Nat) : List Nat → List Nat → Option (List Nat)
  | [], st => some st
  | r :: rs, st =>
    match smawkPop m cols r st with
    | none => none
    | some st' => smawkReduce m cols rs (if st'.length ≠ cols.length then r :: st' else st')

/-- the columns with odd index -/
def oddElems {γ : Type} : List γ → List γ
  | [] => []
  | [_] => []
  | _ :: b :: t => b :: oddElems t

theorem oddElems_length_le {γ : Type} : ∀ l : List γ, (oddElems l).length ≤ l.length / 2
  | [] => by simp [oddElems]
  | [_] => by simp [oddElems]
  | _ :: b :: t => by
    have := oddElems_length_le t
    simp only [oddElems, List.length_cons]
    omega

/-- the inner `while row != last_row { r += 1; row = rows[r]; … }` loop for one even column;
    `rest` = `rows[r+1..]`. Returns the final `row`, the remaining `rows[r+1..]` and `pair.1`. -/
def smawkScan (m : Nat → Nat → Option α) (col lastRow : Nat) :
    Nat → List Nat → α → Nat → Option (Nat × List Nat × Nat)
  | row, rest, pv, pr =>
    if row = lastRow then some (row, rest, pr)
    else match rest with
      | [] => none                                       -- `rows[r]` out of range
      | x :: rest' =>
        match m x col with
        | none => none
        | some v =>
          if tupLt v x pv pr then smawkScan m col lastRow x rest' v x
          else smawkScan m col lastRow x rest' pv pr

/-- `minima[col] = v` -/
def setAt (l : List Nat) (i v : Nat) : Option (List Nat) :=
  if i < l.length then some (l.set i v) else none

/-- the loop over the even-indexed columns; `cur :: rest` = `rows[r..]`, `lastOfRows` =
    `rows[rows.len() - 1]`. The argument list starts at an even index of `cols`. -/
def smawkInterp (m : Nat → Nat → Option α) (lastOfRows : Nat) :
    List Nat → Nat → List Nat → List Nat → Option (List Nat)
  | [], _, _, mn => some mn
  | [col], cur, rest, mn =>
    match m cur col with
    | none => none
    | some v =>
      match smawkScan m col lastOfRows cur rest v cur with
      | none => none
      | some (_, _, best) => setAt mn col best
  | col :: nxt :: cs, cur, rest, mn =>
    match mn[nxt]?, m cur col with
    | some lastRow, some v =>
      match smawkScan m col lastRow cur rest v cur with
      | none => none
      | some (row, rest', best) =>
        match setAt mn col best with
        | none => none
        | some mn' => smawkInterp m lastOfRows cs row rest' mn'
    | _, _ => none

/-- `smawk_inner(matrix, rows, cols, minima)` -/
def smawkInner (m : Nat → Nat → Option α) (rows cols minima : List Nat) : Option (List Nat) :=
  if cols = [] then some minima
  else
    match smawkReduce m cols rows [] with
    | none => none
    | some st =>
      let rows' := st.reverse
      match smawkInner m rows' (oddElems cols) minima with
      | none => none
      | some mn =>
        match rows' with
        | [] => none                                     -- `rows[0]`
        | cur :: rest => smawkInterp m (rows'.getLast?.getD 0) cols cur rest mn
termination_by cols.length
decreasing_by
  have := oddElems_length_le cols
  have : cols.length ≠ 0 := by
    intro h; exact ‹¬ cols = []› (List.eq_nil_of_length_eq_zero h)
  omega

/-- state of the `while` loop of `online_column_minima` -/
structure Ocm (α : Type) where
  result : List (Nat × α)
  finished : Nat
  base : Nat
  tentative : Nat

/-- the `m!` macro: two assertions, then `matrix(&result[..finished + 1], i, j)` -/
def ocmM (M : List (Nat × α) → Nat → Nat → Option α) (size : Nat) (s : Ocm α) (i j : Nat) : Option α :=
  if i < j ∧ i < size ∧ j < size then
    if s.finished + 1 ≤ s.result.length then M (s.result.take (s.finished + 1)) i j else none
  else none

/-- the `for col in cols { … }` loop after `smawk_inner` (first case) -/
def ocmStore (m : Nat → Nat → Option α) (minima : List Nat) :
    List Nat → List (Nat × α) → Option (List (Nat × α))
  | [], res => some res
  | col :: cs, res =>
    match minima[col]? with
    | none => none
    | some row =>
      match m row col with
      | none => none
      | some v =>
        if res.length ≤ col then ocmStore m minima cs (res ++ [(row, v)])
        else match res[col]? with
          | none => none
          | some old =>
            if v < old.2 then ocmStore m minima cs (res.set col (row, v))
            else ocmStore m minima cs res

/-- one iteration of the `while finished < size - 1` loop -/
def ocmStep (M : List (Nat × α) → Nat → Nat → Option α) (size : Nat) (s : Ocm α) : Option (Ocm α) :=
  let i := s.finished + 1
  if s.tentative < i then
    -- first case
    let rows := (List.range (s.finished + 1)).drop s.base       -- base..finished+1
    let tentative := min (s.finished + rows.length) (size - 1)
    let cols := (List.range (tentative + 1)).drop (s.finished + 1)   -- finished+1..tentative+1
    match smawkInner (ocmM M size s) rows cols (List.replicate (tentative + 1) 0) with
    | none => none
    | some minima =>
      match ocmStore (ocmM M size s) minima cols s.result with
      | none => none
      | some res => some { result := res, finished := i, base := s.base, tentative := tentative }
  else
    match ocmM M size s (i - 1) i, s.result[i]? with
    | some diag, some ri =>
      if diag < ri.2 then
        -- second case
        some { result := s.result.set i (i - 1, diag), finished := i, base := i - 1, tentative := i }
      else
        match ocmM M size s (i - 1) s.tentative, s.result[s.tentative]? with
        | some v, some rt =>
          if CostNum.le rt.2 v then
            -- third case
            some { s with finished := i }
          else
            -- fourth case
            some { s with finished := i, base := i - 1, tentative := i }
        | _, _ => none
    | _, _ => none

/-- the `while` loop; `none` also when the fuel runs out (an endless loop) -/
def ocmLoop (M : List (Nat × α) → Nat → Nat → Option α) (size : Nat) : Nat → Ocm α → Option (Ocm α)
  | fuel, s =>
    if s.finished < size - 1 then
      match fuel with
      | 0 => none
      | fuel + 1 =>
        match ocmStep M size s with
        | none => none
        | some s' => ocmLoop M size fuel s'
    else some s

/-- `smawk::online_column_minima(initial, size, matrix)`; `size = 0` underflows in `size - 1` -/
def onlineColumnMinima (M : List (Nat × α) → Nat → Nat → Option α) (initial : α) (size : Nat) :
    Option (List (Nat × α)) :=
  if size = 0 then none
  else (ocmLoop M size size ⟨[(0, initial)], 0, 0, 0⟩).map (·.result)

/-- do the entries at positions `pos, pos+1, …` each point to an earlier column? -/
def shapeFrom : List (Nat × α) → Nat → Bool
  | [], _ => true
  | e :: es, pos => (pos = 0 || decide (e.1 < pos)) && shapeFrom es (pos + 1)

/-- follow the rows back to column 0, counting the steps -/
def lnWalk (minima : List (Nat × α)) : Nat → Nat → Nat
  | 0, _ => 0
  | fuel + 1, i => if i = 0 then 0 else 1 + lnWalk minima fuel ((minima[i]?.map (·.1)).getD 0)

/-- `LineNumbers::get(i, minima)`. The cache is filled for every position up to `i` by
    `1 + get(minima[pos].0)`; that recursion returns only if `minima[pos]` exists and points to
    an earlier column for every `pos` in `1..=i` (otherwise: index panic / unbounded recursion,
    `none`). Entries at or below the `finished` mark of `online_column_minima` never change
    (`ocmStep_prefix_stable`, Lemmas/SmawkOnline.lean), so the cached value is the number of
    steps back to column 0.
    `get(0, _)` answers from the initial cache `[0]` without looking at `minima`. -/
def lnGet (minima : List (Nat × α)) (i : Nat) : Option Nat :=
  if i = 0 then some 0
  else if i < minima.length && shapeFrom (minima.take (i + 1)) 0 then some (lnWalk minima i i)
  else none

/-- the closure passed to `online_column_minima` (optimal_fit.rs:319-368) -/
def costClosure (pen : Penalties) (lws : List α) (frs : List (Frag α)) (W : List α)
    (minima : List (Nat × α)) (i j : Nat) : Option α :=
  match lnGet minima i, W[i]?, W[j]?, (if j = 0 then none else frs[j - 1]?), minima[i]? with
  | some ln, some Wi, some Wj, some last, some mi =>
    some (lineCost pen lws frs.length Wi Wj last mi.2 ln i j)
  | _, _, _, _, _ => none

/-- the back-tracking `loop` on the `(row, cost)` vector itself; indices are checked -/
def backtrackVec (minima : List (Nat × α)) : Nat → Nat → Option (List (Nat × Nat))
  | 0, _ => none
  | fuel + 1, pos =>
    match minima[pos]? with
    | none => none
    | some (prev, _) =>
      if pos < prev then none
      else if prev = 0 then some [(prev, pos)]
      else match backtrackVec minima fuel prev with
        | some l => some ((prev, pos) :: l)
        | none => none

/-- the `(row, cost)` vector the model's own `smawk` computes for a fragment list (what the hook
    records from the real run): the driver compares the costs bit for bit -/
def ownMinimaVec (pen : Penalties) (frs : List (Frag α)) (lws : List α) : Option (List (Nat × α)) :=
  onlineColumnMinima (costClosure pen lws frs (prefixWidths frs)) 0 (prefixWidths frs).length

/-- `wrap_optimal_fit`, self-contained (its own `smawk`). -/
def wrapOptimalFit {β : Type} (m : β → Frag α) (pen : Penalties) (frs : List β) (lws : List α) :
    OfResult β × List Nat :=
  let fr := frs.map m
  let n := frs.length
  let W := prefixWidths fr
  match onlineColumnMinima (costClosure pen lws fr W) 0 W.length with
  | none => (.panic, [])
  | some minima =>
    let rows := minima.map (·.1)
    if minima.any (fun e => CostNum.isInf e.2) then (.overflow, rows)
    else
      match lnGet minima n with                     -- `Vec::with_capacity(line_numbers.get(..))`
      | none => (.panic, rows)
      | some _ =>
        match backtrackVec minima (n + 1) n with
        | none => (.panic, rows)
        | some segs => (.ok (segs.reverse.map fun (a, b) => (frs.drop a).take (b - a)), rows)

end Smawk

end TW

/-
  Std: the `std::str` functions the crate calls, modelled on `List Char`.
  Each has a driver operation and is compared with the real std function (rustc 1.95).
-/
import TextwrapModel.Bytes
namespace TW

def LF : Char := Char.ofNat 10
def CR : Char := Char.ofNat 13
def ESC : Char := Char.ofNat 27
def BEL : Char := Char.ofNat 7
def SHY : Char := Char.ofNat 0xad
def SP : Char := ' '
def HY : Char := '-'

/-- prepend a char to the first piece -/
def consHead (c : Char) : List Text → List Text
  | [] => [[c]]
  | h :: t => (c :: h) :: t

/-- `str::split('\n')` / `split("\n")`: n matches give n+1 pieces -/
def splitLF : Text → List Text
  | [] => [[]]
  | c :: cs => if c = LF then [] :: splitLF cs else consHead c (splitLF cs)

/-- `str::split("\r\n")`: non-overlapping matches, left to right -/
def splitCRLF : Text → List Text
  | [] => [[]]
  | [c] => [[c]]
  | c :: d :: cs =>
    if c = CR ∧ d = LF then [] :: splitCRLF cs
    else consHead c (splitCRLF (d :: cs))

/-- `str::split_terminator('\n')`: as `split`, a trailing empty piece is skipped -/
def splitTerminatorLF (t : Text) : List Text :=
  let ps := splitLF t
  match ps.getLast? with
  | some [] => ps.dropLast
  | _ => ps

/-- `str::split_inclusive('\n')`: pieces keep their terminator; no trailing empty piece -/
def splitInclusiveLF : Text → List Text
  | [] => []
  | c :: cs =>
    if c = LF then [c] :: splitInclusiveLF cs
    else match splitInclusiveLF cs with
      | [] => [[c]]
      | h :: t => (c :: h) :: t

/-- strip one trailing `c` if present (`str::strip_suffix(char)`) -/
def stripSuffixChar? (t : Text) (c : Char) : Option Text :=
  match t.getLast? with
  | some d => if d = c then some t.dropLast else none
  | none => none

/-- one element of `str::lines()` from one element of `split_inclusive('\n')` (rustc ≥ 1.77:
    a `\r` is stripped only together with its `\n`) -/
def stripLineEnding (l : Text) : Text :=
  match stripSuffixChar? l LF with
  | none => l
  | some l1 =>
    match stripSuffixChar? l1 CR with
    | none => l1
    | some l2 => l2

/-- `str::lines()` -/
def lines (t : Text) : List Text := (splitInclusiveLF t).map stripLineEnding

/-- `trim_end_matches(' ')`: (trimmed, removed spaces) -/
def trimEndSp : Text → Text
  | [] => []
  | c :: cs =>
    match trimEndSp cs with
    | [] => if c = SP then [] else [c]
    | r => c :: r

/-- `trim_end_matches(p)` for a char predicate -/
def trimEndBy (p : Char → Bool) : Text → Text
  | [] => []
  | c :: cs =>
    match trimEndBy p cs with
    | [] => if p c then [] else [c]
    | r => c :: r

/-- `trim_start_matches(p)` -/
def trimStartBy (p : Char → Bool) : Text → Text
  | [] => []
  | c :: cs => if p c then trimStartBy p cs else c :: cs

/-- `str::ends_with(&str)` -/
def endsWith (t s : Text) : Bool := s.isSuffixOf t

/-- `str::starts_with(&str)` -/
def startsWith (t s : Text) : Bool := s.isPrefixOf t

/-- `str::strip_suffix(&str)` -/
def stripSuffix? (t s : Text) : Option Text :=
  if s.isSuffixOf t then some (t.take (t.length - s.length)) else none

/-- byte offset of the first `'\n'` (`str::find('\n')`) -/
def findLF : Text → Option Nat
  | [] => none
  | c :: cs => if c = LF then some 0 else (findLF cs).map (· + c.utf8Size)

/-- `Vec<&str>::join` / pushing pieces separated by `sep` -/
def joinWith (sep : Text) : List Text → Text
  | [] => []
  | [a] => a
  | a :: b :: r => a ++ sep ++ joinWith sep (b :: r)

/-- look up a code point in a run-length table `[(start, value)]` sorted by `start`;
    value of the last run whose start is `≤ n`, `d` before the first run -/
def lookupRuns : List (Nat × Nat) → Nat → Nat → Nat
  | [], _, d => d
  | (s, v) :: rest, n, d => if n < s then d else lookupRuns rest n v

end TW

/-
  Word: `core::Word`, `Word::from` (core.rs:238-271), `break_apart` (core.rs:286-325),
  `break_words` (core.rs:354-367).
-/
import TextwrapModel.Ansi
namespace TW

structure Word where
  word : Text
  ws : Text
  pen : Text
  width : Nat
  deriving DecidableEq, Repr, Inhabited

/-- `Word::from`: the trailing stretch of `' '` becomes the whitespace part;
    `&word[trimmed.len()..]` is the rest after the trimmed prefix. -/
def Word.from (cw : Char → Nat) (t : Text) : Word :=
  let trimmed := trimEndSp t
  { word := trimmed, ws := t.drop trimmed.length, pen := [], width := displayWidth cw trimmed }

/-- `Word::break_apart`: pieces are cut only before a visible character met in state `normal`,
    when `width > 0 && width + ch_width(ch) > line_width`; the rest (if non-empty) carries the
    whitespace and penalty. `cur` is `word[offset..idx]`. -/
def breakGo (cw : Char → Nat) (limit : Nat) (ws pen : Text) : Ansi → Text → Nat → Text → List Word
  | _, cur, width, [] =>
    if cur.isEmpty then [] else [{ word := cur, width := width, ws := ws, pen := pen }]
  | s, cur, width, c :: cs =>
    let r := s.step c
    if r.2 then
      if 0 < width ∧ limit < width + cw c then
        { word := cur, width := width, ws := [], pen := [] } :: breakGo cw limit ws pen r.1 [c] (cw c) cs
      else breakGo cw limit ws pen r.1 (cur ++ [c]) (width + cw c) cs
    else breakGo cw limit ws pen r.1 (cur ++ [c]) width cs

def breakApart (cw : Char → Nat) (limit : Nat) (w : Word) : List Word :=
  breakGo cw limit w.ws w.pen .normal [] 0 w.word

/-- `core::break_words` (uses the cached width) -/
def breakWords (cw : Char → Nat) (limit : Nat) : List Word → List Word
  | [] => []
  | w :: ws => (if limit < w.width then breakApart cw limit w else [w]) ++ breakWords cw limit ws

end TW

/-
  Linebreak: `unicode_linebreak::linebreaks` (unicode-linebreak 0.1.5, src/lib.rs:84-110) — the
  crate behind `WordSeparator::UnicodeBreakProperties`. The routine is a scan over
  `s.char_indices()` followed by the end-of-text pseudo class: a state (row of the pair table, "the
  previous class was ZWJ") is carried from character to character, the entry
  `PAIR_TABLE[state][class]` says whether a break is allowed / mandatory before the character and
  what the next state is. The tables are parameters (`LbTables`); the driver instantiates them from
  the crate's own `tables.rs` / `break_property` (regenerated on every run) and compares the
  opportunities computed here with those the real crate returned, on every case.
-/
import TextwrapModel.Bytes
namespace TW

structure LbTables where
  /-- `PAIR_TABLE[state][class]`, the raw byte -/
  pair : Nat → Nat → Nat
  /-- `break_property(c) as u8` -/
  cls : Char → Nat
  /-- `val & ALLOWED_BREAK_BIT != 0` -/
  allowed : Nat → Bool
  /-- `val & MANDATORY_BREAK_BIT != 0` -/
  mandatory : Nat → Bool
  /-- `val & !(ALLOWED_BREAK_BIT | MANDATORY_BREAK_BIT)` -/
  next : Nat → Nat
  sot : Nat
  eot : Nat
  zwj : Nat

/-- is a break reported for table entry `val` when the previous class was (not) ZWJ:
    `val & ALLOWED != 0 && (!state.1 || is_mandatory)` -/
def LbTables.isBreak (T : LbTables) (val : Nat) (zw : Bool) : Bool :=
  T.allowed val && (!zw || T.mandatory val)

/-- the scan + filter_map: `i` is the byte index of the next character -/
def lbGo (T : LbTables) : Nat → Bool → Nat → Text → List Nat
  | st, zw, i, [] => if T.isBreak (T.pair st T.eot) zw then [i] else []
  | st, zw, i, c :: cs =>
    let k := T.cls c
    let val := T.pair st k
    let rest := lbGo T (T.next val) (k == T.zwj) (i + c.utf8Size) cs
    if T.isBreak val zw then i :: rest else rest

/-- `linebreaks(s).map(|(i, _)| i)` -/
def ownOpps (T : LbTables) (s : Text) : List Nat := lbGo T T.sot false 0 s

end TW

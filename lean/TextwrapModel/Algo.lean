/-
  Algo: `wrap_first_fit` (wrap_algorithms.rs:336-357) and `wrap_optimal_fit`
  (optimal_fit.rs:160-182, 302-389), generic over the number type. The driver runs them on
  `Float` (IEEE doubles, as Rust's `f64`); order-dependent theorems instantiate `Int`.
-/
import TextwrapModel.Split
namespace TW

/-- what the two algorithms need from `f64` -/
class CostNum (α : Type) extends Add α, Sub α, Mul α, LT α, Zero α where
  ofNat : Nat → α
  /-- `x.max(1.0)` -/
  max1 : α → α
  /-- `line_width < target_width / fraction as f64` -/
  shortLine : α → α → Nat → Bool
  /-- `f64::is_infinite` -/
  isInf : α → Bool
  /-- `a <= b` of `PartialOrd` (false when either side is NaN); used by the model of `smawk` -/
  le : α → α → Bool
  /-- `a == b` of `PartialEq` (false when either side is NaN); used by the model of `smawk` -/
  eqv : α → α → Bool
  decLt : DecidableRel (α := α) (· < ·)

instance {α} [CostNum α] : DecidableRel (α := α) (· < ·) := CostNum.decLt

/-- the three numbers of a `Fragment` -/
structure Frag (α : Type) where
  w : α
  ws : α
  pen : α
  deriving Repr, Inhabited

/-- `line_widths.last().copied().unwrap_or(0.0)` -/
def defaultLw {α} [Zero α] (lws : List α) : α := lws.getLast?.getD 0

section FirstFit
variable {α : Type} [Add α] [LT α] [Zero α] [DecidableRel (α := α) (· < ·)] {β : Type}

/-- the `for` loop of `wrap_first_fit`; `k` = `lines.len()`, `cur` = `fragments[start..idx]`. -/
def ffGo (m : β → Frag α) (lws : List α) (dflt : α) : Nat → List β → α → List β → List (List β)
  | _, cur, _, [] => [cur]
  | k, cur, width, f :: fs =>
    let lw := lws.getD k dflt
    if lw < width + (m f).w + (m f).pen ∧ ¬ cur.isEmpty then
      cur :: ffGo m lws dflt (k + 1) [f] (0 + ((m f).w + (m f).ws)) fs
    else ffGo m lws dflt k (cur ++ [f]) (width + ((m f).w + (m f).ws)) fs

def wrapFirstFit (m : β → Frag α) (frs : List β) (lws : List α) : List (List β) :=
  ffGo m lws (defaultLw lws) 0 [] 0 frs
end FirstFit

structure Penalties where
  nline : Nat
  overflow : Nat
  shortFrac : Nat
  shortPen : Nat
  hyphen : Nat
  deriving DecidableEq, Repr, Inhabited

section OptimalFit
variable {α : Type} [CostNum α]

/-- prefix sums `widths` (optimal_fit.rs:309-315) -/
def prefixWidths (frs : List (Frag α)) : List α :=
  let rec go (acc : α) : List (Frag α) → List α
    | [] => []
    | f :: fs => let a := acc + (f.w + f.ws); a :: go a fs
  (0 : α) :: go 0 frs

/-- The cost closure (optimal_fit.rs:319-368): cost of ending a line with fragment `j-1` when
    the previous break is before fragment `i`, given the optimal cost `Di` of breaking before
    `i` and the line number `ln` of that line. `W` are the prefix sums, `n` = number of
    fragments, `last` = fragment `j-1`. -/
def lineCost (pen : Penalties) (lws : List α) (n : Nat) (Wi Wj : α) (last : Frag α)
    (Di : α) (ln : Nat) (i j : Nat) : α :=
  let lw := lws.getD ln (defaultLw lws)
  let target := CostNum.max1 lw
  let lineW := Wj - Wi - last.ws + last.pen
  let cost := Di + CostNum.ofNat pen.nline
  let cost :=
    if target < lineW then cost + (lineW - target) * CostNum.ofNat pen.overflow
    else if j < n then cost + (target - lineW) * (target - lineW)
    else if i + 1 = j ∧ CostNum.shortLine lineW target pen.shortFrac then
      cost + CostNum.ofNat pen.shortPen
    else cost
  if (0 : α) < last.pen then cost + CostNum.ofNat pen.hyphen else cost

/-- `M[i,j]` as the closure computes it from the table of `(cost, line number)` built so far -/
def cellCost (pen : Penalties) (lws : List α) (frs : List (Frag α)) (W : List α)
    (tbl : List (α × Nat)) (i j : Nat) : α :=
  let e := tbl.getD i (0, 0)
  lineCost pen lws frs.length (W.getD i 0) (W.getD j 0) (frs.getD (j - 1) ⟨0, 0, 0⟩) e.1 e.2 i j

/-- table `[(D j, line number of j)]` for `j = 0..m`, rebuilt from the minima rows `r`
    (`LineNumbers::get` and `minima[i].1`). -/
def dpTable (pen : Penalties) (lws : List α) (frs : List (Frag α)) (W : List α) (r : Nat → Nat) :
    Nat → List (α × Nat)
  | 0 => [(0, 0)]
  | j + 1 =>
    let tbl := dpTable pen lws frs W r j
    let i := r (j + 1)
    tbl ++ [(cellCost pen lws frs W tbl i (j + 1), (tbl.getD i (0, 0)).2 + 1)]

/-- left-most arg-min of column `j` over rows `0..j-1`, searched from row `i` -/
def argminFrom (cost : Nat → α) : Nat → Nat → Nat → α → Nat
  | 0, _, best, _ => best
  | fuel + 1, i, best, bv =>
    let v := cost i
    if v < bv then argminFrom cost fuel (i + 1) i v else argminFrom cost fuel (i + 1) best bv

/-- naive O(n²) column minima (left-most ties): an executable instance of the `smawk`
    contract. Returns the table and the rows. -/
def naiveMinima (pen : Penalties) (lws : List α) (frs : List (Frag α)) (W : List α) :
    Nat → List (α × Nat) × List Nat
  | 0 => ([(0, 0)], [0])
  | j + 1 =>
    let (tbl, rows) := naiveMinima pen lws frs W j
    let c := fun i => cellCost pen lws frs W tbl i (j + 1)
    let i := argminFrom c j 1 0 (c 0)
    (tbl ++ [(c i, (tbl.getD i (0, 0)).2 + 1)], rows ++ [i])

/-- the back-tracking `loop` (optimal_fit.rs:376-388), with fuel; `none` = an index panics
    (`prev > pos`) or the fuel ran out (would loop forever). Returns `(start, end)` pairs,
    last line first. -/
def backtrackGo (r : Nat → Nat) : Nat → Nat → Option (List (Nat × Nat))
  | 0, _ => none
  | fuel + 1, pos =>
    let prev := r pos
    if pos < prev then none
    else if prev = 0 then some [(prev, pos)]
    else match backtrackGo r fuel prev with
      | some l => some ((prev, pos) :: l)
      | none => none

inductive OfResult (β : Type) where
  | ok (lines : List (List β))
  | overflow                     -- `Err(OverflowError)`
  | panic                        -- index out of range / endless loop
  deriving Repr

/-- `wrap_optimal_fit`, given the rows `rows` that `smawk::online_column_minima` returned
    (`rows[j]` = `minima[j].0`). -/
def wrapOptimalFitWith {β : Type} (m : β → Frag α) (pen : Penalties) (frs : List β) (lws : List α)
    (rows : List Nat) : OfResult β :=
  let fr := frs.map m
  let n := frs.length
  let W := prefixWidths fr
  let r := fun j => rows.getD j 0
  let tbl := dpTable pen lws fr W r n
  if tbl.any (fun e => CostNum.isInf e.1) then .overflow
  else match backtrackGo r (n + 1) n with
    | none => .panic
    | some segs => .ok (segs.reverse.map fun (a, b) => (frs.drop a).take (b - a))

/-- the same with the model's own (naive, left-most) column minima -/
def wrapOptimalFitNaive {β : Type} (m : β → Frag α) (pen : Penalties) (frs : List β) (lws : List α) :
    OfResult β :=
  let fr := frs.map m
  wrapOptimalFitWith m pen frs lws (naiveMinima pen lws fr (prefixWidths fr) frs.length).2

end OptimalFit

end TW

/-
  Split: `WordSplitter::split_points` and `split_words` (word_splitters.rs:131-206).
-/
import TextwrapModel.FindWords
namespace TW

/-- hyphen split points: directly after each `'-'` with an alphanumeric char on both sides.
    `off` is the byte offset of the head of the list, `prev` the char before it. -/
def hyphenPointsGo (isAlnum : Char → Bool) : Option Char → Nat → Text → List Nat
  | _, _, [] => []
  | prev, off, c :: cs =>
    let rest := hyphenPointsGo isAlnum (some c) (off + c.utf8Size) cs
    if c = HY && prev.any isAlnum && cs.head?.any isAlnum then (off + 1) :: rest else rest

def hyphenPoints (isAlnum : Char → Bool) (w : Text) : List Nat := hyphenPointsGo isAlnum none 0 w

inductive Splitter where
  | none
  | hyphen
  | custom (points : Text → List Nat)

def Splitter.points (isAlnum : Char → Bool) : Splitter → Text → List Nat
  | .none, _ => []
  | .hyphen, w => hyphenPoints isAlnum w
  | .custom f, w => f w

/-- the `from_fn` closure of `split_words` for one word: `none` = a slice panics
    (only possible with custom split points). -/
def splitOne (cw : Char → Nat) (w : Word) : List Nat → Nat → Option (List Word)
  | [], prev =>
    if prev < blen w.word ∨ prev = 0 then
      match sliceFrom? w.word prev with
      | some s => some [{ word := s, width := displayWidth cw s, ws := w.ws, pen := w.pen }]
      | none => none
    else some []
  | idx :: ps, prev =>
    match sliceTo? w.word idx, slice? w.word prev idx, splitOne cw w ps idx with
    | some pre, some s, some rest =>
      some ({ word := s, width := displayWidth cw s, ws := [],
              pen := if pre.getLast? = some HY then [] else [HY] } :: rest)
    | _, _, _ => none

def splitWords (env : Env) (sp : Splitter) : List Word → Option (List Word)
  | [] => some []
  | w :: ws =>
    match splitOne env.cw w (sp.points env.isAlnum w.word) 0, splitWords env sp ws with
    | some a, some b => some (a ++ b)
    | _, _ => none

end TW

/-
  Indent: `indent` (indentation.rs:52-75) and `dedent` (indentation.rs:95-150).
-/
import TextwrapModel.Std
namespace TW

/-- the `for (idx, line) in s.split_terminator('\n').enumerate()` loop -/
def indentLines (isWs : Char → Bool) (pre trimmedPre : Text) : List Text → Nat → Text
  | [], _ => []
  | line :: rest, idx =>
    (if idx = 0 then [] else [LF]) ++
    (if (line.all isWs) then trimmedPre else pre) ++ line ++ indentLines isWs pre trimmedPre rest (idx + 1)

/-- `textwrap::indent` -/
def indent (isWs : Char → Bool) (s pre : Text) : Text :=
  indentLines isWs pre (trimEndBy isWs pre) (splitTerminatorLF s) 0 ++
    (if s.getLast? = some LF then [LF] else [])

/-- leading whitespace run of a line -/
def leadingWs (isWs : Char → Bool) : Text → Text
  | [] => []
  | c :: cs => if isWs c then c :: leadingWs isWs cs else []

/-- first loop of `dedent`: find the first line with a non-whitespace char; returns its leading
    whitespace and the lines after it -/
def dedentSeed (isWs : Char → Bool) : List Text → Text × List Text
  | [] => ([], [])
  | line :: rest =>
    if line.all isWs then dedentSeed isWs rest else (leadingWs isWs line, rest)

/-- `for ((idx, a), b) in line.char_indices().zip(prefix.chars())`: `some p` = mismatch found
    with `p = line[..idx]`; `none` = no mismatch (whitespace_idx stays `line.len()`) -/
def zipMismatchLine : Text → Text → Option Text
  | [], _ => none
  | _, [] => none
  | a :: as, b :: bs => if a = b then (zipMismatchLine as bs).map (a :: ·) else some []

/-- body of the narrowing loop for one line: `whitespace_idx` is the byte offset of the first
    mismatch (else `line.len()`); the prefix shrinks to `line[..whitespace_idx]` if that is
    shorter than both -/
def narrowStep (line pre : Text) : Text :=
  match zipMismatchLine line pre with
  | some p => if blen p < blen line ∧ blen p < blen pre then p else pre
  | none => pre

/-- second loop of `dedent`: whitespace-only lines are skipped -/
def dedentNarrow (isWs : Char → Bool) : List Text → Text → Text
  | [], pre => pre
  | line :: rest, pre =>
    if line.all isWs then dedentNarrow isWs rest pre
    else dedentNarrow isWs rest (narrowStep line pre)

def dedentOut (isWs : Char → Bool) (pre : Text) : List Text → Text
  | [] => []
  | line :: rest =>
    (if pre.isPrefixOf line && line.any (fun c => !isWs c) then line.drop pre.length else []) ++
      [LF] ++ dedentOut isWs pre rest

/-- `textwrap::dedent` -/
def dedent (isWs : Char → Bool) (s : Text) : Text :=
  let ls := lines s
  let (seed, rest) := dedentSeed isWs ls
  let pre := dedentNarrow isWs rest seed
  let result := dedentOut isWs pre ls
  if result.getLast? = some LF ∧ s.getLast? ≠ some LF then result.dropLast else result

end TW

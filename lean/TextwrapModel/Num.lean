/-
  Num: the two instances of `CostNum`. `Float` is what the driver executes (IEEE doubles via
  the C runtime, like Rust's `f64`); `Int` is what the order-dependent theorems are stated on.
-/
import TextwrapModel.Algo
namespace TW

instance : CostNum Float where
  ofNat := Float.ofNat
  max1 x := if 1.0 ≤ x then x else 1.0          -- `f64::max`: NaN.max(1.0) = 1.0
  shortLine lw target frac := lw < target / Float.ofNat frac
  isInf := Float.isInf
  le a b := a ≤ b
  eqv a b := a == b
  decLt := fun a b => Float.decLt a b
  zero := 0.0

/-- exact arithmetic: equals the `f64` computation while every intermediate value is an integer
    below 2^53. `lw < target / fraction` over the reals is `lw * fraction < target`
    (`fraction = 0`: `target / 0.0 = +∞` since `target ≥ 1`, so the test is true). -/
instance : CostNum Int where
  ofNat := Int.ofNat
  max1 x := if 1 ≤ x then x else 1
  shortLine lw target frac := frac = 0 || lw * (frac : Int) < target
  isInf _ := false
  le a b := a ≤ b
  eqv a b := a == b
  decLt := fun a b => Int.decLt a b
  zero := 0

end TW

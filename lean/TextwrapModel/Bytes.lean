/-
  Bytes: text is `List Char`; positions are UTF-8 byte offsets as in the Rust code.
  Slicing is checked: `none` models the Rust panic (out of range / not a char boundary).
  Import-free (core Lean only) so the driver links as a `lean_exe`.
-/
namespace TW

abbrev Text := List Char

/-- UTF-8 byte length (`str::len`). -/
def blen : Text → Nat
  | [] => 0
  | c :: cs => c.utf8Size + blen cs

/-- Split at byte offset `n` (`str::split_at`): `none` if `n` is past the end or not on a
    char boundary — the Rust panic conditions. -/
def splitBytes? : Text → Nat → Option (Text × Text)
  | t, 0 => some ([], t)
  | [], _ + 1 => none
  | c :: cs, n + 1 =>
    if c.utf8Size ≤ n + 1 then
      match splitBytes? cs (n + 1 - c.utf8Size) with
      | some (a, b) => some (c :: a, b)
      | none => none
    else none

/-- `&t[a..b]` -/
def slice? (t : Text) (a b : Nat) : Option Text :=
  if a ≤ b then
    match splitBytes? t a with
    | some (_, r) =>
      match splitBytes? r (b - a) with
      | some (m, _) => some m
      | none => none
    | none => none
  else none

/-- `&t[a..]` -/
def sliceFrom? (t : Text) (a : Nat) : Option Text :=
  match splitBytes? t a with
  | some (_, r) => some r
  | none => none

/-- `&t[..b]` -/
def sliceTo? (t : Text) (b : Nat) : Option Text :=
  match splitBytes? t b with
  | some (l, _) => some l
  | none => none

/-- the char ending right before byte offset `n`, i.e. `t[..n].chars().next_back()` -/
def charBefore? (t : Text) (n : Nat) : Option (Option Char) :=
  match splitBytes? t n with
  | some (l, _) => some l.getLast?
  | none => none

end TW

import TextwrapModel.Gen.TablesUnicode
import TextwrapModel.Gen.TablesCrude
import TextwrapModel.Gen.TablesLinebreak

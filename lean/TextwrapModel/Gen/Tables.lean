import TextwrapModel.Gen.TablesUnicode
import TextwrapModel.Gen.TablesCrude

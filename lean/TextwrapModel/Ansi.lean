/-
  Ansi: `skip_ansi_escape_sequence` (core.rs:52-83) as one state machine; `display_width`
  (core.rs:199-209) and `strip_ansi_escape_sequences` (word_separators.rs:220-232) are folds
  of it — the same sharing as in Rust.
-/
import TextwrapModel.Std
namespace TW

/-- skipper state between two characters -/
inductive Ansi where
  | normal
  | esc                      -- ESC seen, next char is always consumed
  | csi                      -- inside `ESC [ …`, until a final byte `@..~`
  | osc (lastEsc : Bool)     -- inside `ESC ] …`, until BEL or `ESC \`
  deriving DecidableEq, Repr, Inhabited

def isFinalByte (c : Char) : Bool := 0x40 ≤ c.toNat && c.toNat ≤ 0x7e

/-- one character: new state, and whether the character is *visible* (counted / kept) -/
def Ansi.step : Ansi → Char → Ansi × Bool
  | .normal, c => if c = ESC then (.esc, false) else (.normal, true)
  | .esc, c =>
    if c = '[' then (.csi, false)
    else if c = ']' then (.osc false, false)
    else (.normal, false)
  | .csi, c => if isFinalByte c then (.normal, false) else (.csi, false)
  | .osc l, c =>
    if c = BEL || (c = '\\' && l) then (.normal, false)
    else (.osc (c = ESC), false)

/-- state after scanning `t` from state `s` -/
def Ansi.run : Ansi → Text → Ansi
  | s, [] => s
  | s, c :: cs => Ansi.run (s.step c).1 cs

/-- display width from a given state -/
def dwFrom (cw : Char → Nat) : Ansi → Text → Nat
  | _, [] => 0
  | s, c :: cs =>
    let r := s.step c
    (if r.2 then cw c else 0) + dwFrom cw r.1 cs

/-- `core::display_width` -/
def displayWidth (cw : Char → Nat) (t : Text) : Nat := dwFrom cw .normal t

/-- stripping from a given state -/
def stripFrom : Ansi → Text → Text
  | _, [] => []
  | s, c :: cs =>
    let r := s.step c
    if r.2 then c :: stripFrom r.1 cs else stripFrom r.1 cs

/-- `strip_ansi_escape_sequences` -/
def stripAnsi (t : Text) : Text := stripFrom .normal t

/-- The external data the crate consults: width table, char classes, and the two external
    algorithms (UAX #14 opportunities of a stripped line; `smawk` column-minima rows), as
    parameters (Aeneas style). Theorems quantify over every `Env` satisfying explicit side
    conditions; the driver instantiates it from regenerated tables and from what the real
    crates returned on this very input. -/
structure Env where
  cw : Char → Nat
  isAlnum : Char → Bool
  isWs : Char → Bool
  /-- `unicode_linebreak::linebreaks(stripped)`: byte offsets of the break opportunities -/
  opps : Text → List Nat

/-- every character satisfying `P` is met in skipper state `normal` (executable form of
    `MetNormal`, `Lemmas/HNormPipeline.lean`) -/
def metNormalB (P : Char → Bool) : Ansi → Text → Bool
  | _, [] => true
  | s, c :: cs => (!P c || s == .normal) && metNormalB P (s.step c).1 cs

/-- executable form of `SeqSafe`: every space (and every `'-'` if `hy`) is met in state
    `normal`, and the text ends in state `normal` -/
def seqSafeB (hy : Bool) (t : Text) : Bool :=
  metNormalB (fun c => c == ' ' || (hy && c == '-')) .normal t && (Ansi.run .normal t == .normal)

end TW

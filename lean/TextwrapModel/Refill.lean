/-
  Refill: `NonEmptyLines` (line_ending.rs:37-60), `unfill` (refill.rs:62-114),
  `refill` (refill.rs:169-188).
-/
import TextwrapModel.Wrap
namespace TW

/-- `NonEmptyLines::next`, over the `'\n'`-separated pieces: every piece but the last was found
    through `find('\n')`; empty pieces and a lone `"\r"` are skipped. -/
def nelGo : List Text → List (Text × Option LineEnding)
  | [] => []
  | [last] => if last.isEmpty then [] else [(last, none)]
  | p :: q :: rest =>
    (if p.isEmpty || p == [CR] then []
     else if p.getLast? = some CR then [(p.dropLast, some LineEnding.crlf)]
     else [(p, some LineEnding.lf)]) ++ nelGo (q :: rest)

def nonEmptyLines (t : Text) : List (Text × Option LineEnding) := nelGo (splitLF t)

/-- `refill.rs:63` -/
def prefixChars : List Char := [' ', '-', '+', '*', '>', '#', '/']

def isPrefixChar (c : Char) : Bool := prefixChars.contains c

/-- the `for ((idx, x), y) in prefix.char_indices().zip(sub.chars())` loop: `some p` = a mismatch
    was found and `p = prefix[..idx]` -/
def zipMismatch : Text → Text → Option Text
  | [], _ => none
  | _, [] => none
  | x :: xs, y :: ys => if x = y then (zipMismatch xs ys).map (x :: ·) else some []

structure Unfilled where
  text : Text
  width : Nat
  initialIndent : Text
  subsequentIndent : Text
  lineEnding : LineEnding
  deriving DecidableEq, Repr

/-- first loop of `unfill` over `text.lines()`: (width, initial, subsequent) -/
def unfillScan (cw : Char → Nat) : List Text → Nat → Nat × Text × Text → Nat × Text × Text
  | [], _, acc => acc
  | line :: rest, idx, (width, ini, sub) =>
    let width := max width (displayWidth cw line)
    let withoutPrefix := trimStartBy isPrefixChar line
    let pre := line.take (line.length - withoutPrefix.length)
    let acc :=
      if idx = 0 then (width, pre, sub)
      else if idx = 1 then (width, ini, pre)
      else
        let sub1 := match zipMismatch pre sub with
          | some p => p
          | none => sub
        let sub2 := if blen pre < blen sub1 then pre else sub1
        (width, ini, sub2)
    unfillScan cw rest (idx + 1) acc

/-- the line-ending detection of the second loop (refill.rs:96-101) -/
def detStep (d : Option LineEnding) (ending : Option LineEnding) : Option LineEnding :=
  match d, ending with
  | none, some e => some e
  | some .crlf, some .lf => some .lf
  | d, _ => d

/-- second loop over `NonEmptyLines`; `none` = a slice panics -/
def unfillJoin (ini sub : Text) : List (Text × Option LineEnding) → Nat → Text → Option LineEnding →
    Option (Text × Option LineEnding)
  | [], _, acc, det => some (acc, det)
  | (line, ending) :: rest, idx, acc, det =>
    let piece := if idx = 0 then sliceFrom? line (blen ini) else (sliceFrom? line (blen sub)).map (SP :: ·)
    match piece with
    | none => none
    | some p =>
      unfillJoin ini sub rest (idx + 1) (acc ++ p) (detStep det ending)

/-- `textwrap::unfill` -/
def unfill (cw : Char → Nat) (text : Text) : Option Unfilled :=
  let (width, ini, sub) := unfillScan cw (lines text) 0 (0, [], [])
  match unfillJoin ini sub (nonEmptyLines text) 0 [] none with
  | none => none
  | some (unfilled, det) =>
    let unfilled := match det with
      | some le => if endsWith text le.str then unfilled ++ le.str else unfilled
      | none => unfilled
    some { text := unfilled, width := width, initialIndent := ini, subsequentIndent := sub,
           lineEnding := det.getD .lf }

/-- `textwrap::refill` -/
def refill {α : Type} [CostNum α] (env : Env) (mo : MinimaOracle α) (o : Opts) (filled : Text) :
    Option Text :=
  match unfill env.cw filled with
  | none => none
  | some u =>
    let stripped := stripSuffix? u.text u.lineEnding.str
    let o' := { o with initialIndent := u.initialIndent, subsequentIndent := u.subsequentIndent }
    match fill env mo o' (stripped.getD u.text) with
    | none => none
    | some r => some (if stripped.isSome then r ++ o.lineEnding.str else r)

end TW

/-
  Columns: `wrap_columns` (columns.rs:63-114).
-/
import TextwrapModel.Refill
namespace TW

def spaces (n : Nat) : Text := List.replicate n SP

/-- the `for line_no in 0..lines_per_column` loop: all rows, or `none` if one panics -/
def collectRows (f : Nat → Option Text) : List Nat → Option (List Text)
  | [] => some []
  | r :: rs =>
    match f r, collectRows f rs with
    | some row, some rest => some (row :: rest)
    | _, _ => none

section
variable {α : Type} [CostNum α]

/-- one row; a line wider than the column protrudes (`saturating_sub`) -/
def columnsRow (cw : Char → Nat) (wrapped : List Text) (columns columnWidth linesPerColumn : Nat)
    (middle lastPad : Text) (lineNo : Nat) : Nat → Nat → Option Text
  | 0, _ => some []
  | fuel + 1, columnNo =>
    let cell : Option Text :=
      match wrapped[lineNo + columnNo * linesPerColumn]? with
      | some l => some (l ++ spaces (columnWidth - displayWidth cw l))
      | none => some (spaces columnWidth)
    let sep := if columnNo = columns - 1 then lastPad else middle
    match cell, columnsRow cw wrapped columns columnWidth linesPerColumn middle lastPad lineNo fuel (columnNo + 1) with
    | some c, some r => some (c ++ sep ++ r)
    | _, _ => none

/-- `textwrap::wrap_columns` -/
def wrapColumns (env : Env) (mo : MinimaOracle α) (o : Opts) (text : Text) (columns : Nat)
    (left middle right : Text) : Option (List Text) :=
  if columns = 0 then none
  else
    let innerWidth := o.width - displayWidth env.cw left - displayWidth env.cw right
      - displayWidth env.cw middle * (columns - 1)
    let columnWidth := max (innerWidth / columns) 1
    let lastPad := spaces (innerWidth % columnWidth)
    match wrap env mo { o with width := columnWidth } text with
    | none => none
    | some wrapped =>
      let n := wrapped.length
      let linesPerColumn := n / columns + (if n % columns > 0 then 1 else 0)
      collectRows (fun lineNo =>
        (columnsRow env.cw wrapped columns columnWidth linesPerColumn middle lastPad lineNo columns 0).map
          fun row => left ++ row ++ right) (List.range linesPerColumn)

end
end TW

/-
  FindWords: `find_words_ascii_space` (word_separators.rs:191-216) and
  `find_words_unicode_break_properties` (word_separators.rs:243-305).
-/
import TextwrapModel.Word
namespace TW

/-- ASCII separator loop. `cur` is `line[start..idx]`; a word ends where a space is followed by
    a non-space. -/
def asciiGo : Text → Bool → Text → List Text
  | cur, _, [] => if cur.isEmpty then [] else [cur]
  | cur, inWs, c :: cs =>
    if inWs && c != SP then cur :: asciiGo [c] false cs
    else asciiGo (cur ++ [c]) (c == SP) cs

def findWordsAscii (cw : Char → Nat) (line : Text) : List Word :=
  (asciiGo [] false line).map (Word.from cw)

/-- the opportunity filter (word_separators.rs:265-279): `stripped[..idx].chars().next_back()`;
    `none` = the slice panics. -/
def keepOpp (stripped : Text) (o : Nat) : Option Bool :=
  match charBefore? stripped o with
  | some p => some (p != some HY && p != some SHY)
  | none => none

def filterOpps (stripped : Text) : List Nat → Option (List Nat)
  | [] => some []
  | o :: os =>
    match keepOpp stripped o, filterOpps stripped os with
    | some k, some r => some (if k then o :: r else r)
    | _, _ => none

/-- The word loop over the index map, char by char. A character met in skipper state `normal`
    has an `idx_map` entry `(orig_idx, st)`; `Iterator::find` consumes entries until one has
    `stripped_idx == o`; the word `line[start..orig_idx]` (= `cur`) is emitted there and the
    matching character starts the next word. Characters consumed by the escape skipper have no
    entry. When the opportunities run out, or the map does, the rest is one word. -/
def uniGo : Ansi → Nat → Text → List Nat → Text → List Text
  | _, _, cur, _, [] => if cur.isEmpty then [] else [cur]
  | s, st, cur, opps, c :: cs =>
    let r := s.step c
    let st' := if r.2 then st + c.utf8Size else st
    match s, opps with
    | .normal, o :: os =>
      if st = o then cur :: uniGo r.1 st' [c] os cs
      else uniGo r.1 st' (cur ++ [c]) (o :: os) cs
    | _, _ => uniGo r.1 st' (cur ++ [c]) opps cs

/-- opportunities actually used: the end-of-text opportunity is dropped by position
    (`*idx < stripped.len()`), then the `-`/SHY filter is applied -/
def usedOpps (stripped : Text) (opps : List Nat) : Option (List Nat) :=
  filterOpps stripped (opps.filter (· < blen stripped))

def findWordsUnicode (env : Env) (line : Text) : Option (List Word) :=
  let stripped := stripAnsi line
  match usedOpps stripped (env.opps stripped) with
  | some os => some ((uniGo .normal 0 [] os line).map (Word.from env.cw))
  | none => none

inductive Sep where
  | ascii
  | unicode
  deriving DecidableEq, Repr, Inhabited

def findWords (env : Env) : Sep → Text → Option (List Word)
  | .ascii, line => some (findWordsAscii env.cw line)
  | .unicode, line => findWordsUnicode env line

end TW

/-
  Colour: coloured text as blocks (used by the C13 theorems): every visible character preceded by
  a possibly empty run of escape sequences, plus a trailing run. Executable forms of the
  hypotheses of the theorems, for the driver.
-/
import TextwrapModel.Ansi
namespace TW

/-- a visible character with the sequence run in front of it -/
abbrev Block := Text × Char

def colOf (bs : List Block) (tl : Text) : Text := (bs.map fun b => b.1 ++ [b.2]).flatten ++ tl
def visOf (bs : List Block) : Text := bs.map (·.2)

/-- executable form of `SeqRun` -/
def seqRunB (P : Text) : Bool :=
  !P.contains ' ' && (stripFrom .normal P).isEmpty && (Ansi.run .normal P == .normal)

/-- executable form of `ValidB` -/
def validBB (bs : List Block) (tl : Text) : Bool :=
  bs.all (fun b => seqRunB b.1 && b.2 != Char.ofNat 27) && seqRunB tl

/-- executable form of `Attached` -/
def attachedB : Option Char → List Block → Text → Bool
  | prev, [], tl => tl.isEmpty || (match prev with | some c => c != ' ' | none => false)
  | prev, b :: r, tl =>
    (b.1.isEmpty || b.2 != ' ' || (match prev with | some c => c != ' ' | none => false)) &&
      attachedB (some b.2) r tl

/-- executable form of `NoTouch` (no escape sequence touches a hyphen) -/
def noTouchB : Ansi → Bool → Text → Bool
  | _, _, [] => true
  | s, pin, c :: cs =>
    (c != '-' || (s == .normal && !pin && cs.head? != some (Char.ofNat 27))) &&
      noTouchB (s.step c).1 (!(s.step c).2) cs

end TW

/-
  Wrap: `WrapAlgorithm::wrap` (wrap_algorithms.rs:156-179), `wrap_single_line`,
  `wrap_single_line_slow_path`, `wrap` (wrap.rs:180-292), `fill`, `fill_slow_path`,
  `fill_inplace` (fill.rs:36-66, 120-153).
-/
import TextwrapModel.Smawk
namespace TW

inductive LineEnding where
  | lf
  | crlf
  deriving DecidableEq, Repr, Inhabited

def LineEnding.str : LineEnding → Text
  | .lf => [LF]
  | .crlf => [CR, LF]

/-- `text.split(line_ending_str)` -/
def splitEnding : LineEnding → Text → List Text
  | .lf, t => splitLF t
  | .crlf, t => splitCRLF t

inductive Alg where
  | firstFit
  | optimalFit (p : Penalties)
  deriving DecidableEq, Repr, Inhabited

structure Opts where
  width : Nat
  initialIndent : Text
  subsequentIndent : Text
  breakWords : Bool
  sep : Sep
  splitter : Splitter
  alg : Alg
  lineEnding : LineEnding

/-- what `smawk::online_column_minima` returned for a fragment list and line widths:
    `rows[j] = minima[j].0` (external; see `Env`) -/
abbrev MinimaOracle (α : Type) := List (Frag α) → List α → List Nat

section
variable {α : Type} [CostNum α]

/-- the minima the model's own `smawk` (TextwrapModel/Smawk.lean) computes for penalties `pen`:
    with this oracle the model of `wrap` is self-contained -/
def ownMinima (pen : Penalties) : MinimaOracle α := fun frs lws =>
  match onlineColumnMinima (costClosure pen lws frs (prefixWidths frs)) 0 (prefixWidths frs).length with
  | some minima => minima.map (·.1)
  | none => []

/-- `Fragment for Word`: `width as f64`, `whitespace.len() as f64`, `penalty.len() as f64` -/
def fragOf (w : Word) : Frag α :=
  ⟨CostNum.ofNat w.width, CostNum.ofNat (blen w.ws), CostNum.ofNat (blen w.pen)⟩

/-- `WrapAlgorithm::wrap`; `none` = the `unwrap()` of an `OverflowError`, or a panic inside -/
def wrapAlg (mo : MinimaOracle α) : Alg → List Word → List Nat → Option (List (List Word))
  | .firstFit, ws, lws => some (wrapFirstFit (fragOf (α := α)) ws (lws.map CostNum.ofNat))
  | .optimalFit p, ws, lws =>
    let flws : List α := lws.map CostNum.ofNat
    match wrapOptimalFitWith (fragOf (α := α)) p ws flws (mo (ws.map fragOf) flws) with
    | .ok ls => some ls
    | _ => none

/-- one output line: `indent ++ line[start..start+len] ++ pen`; `borrowed` = `Cow::Borrowed`;
    `inBuf` = the borrowed slice points into the caller's buffer (false for `Cow::from("")`). -/
structure LineD where
  indent : Text
  start : Nat
  len : Nat
  slice : Text
  pen : Text
  borrowed : Bool
  inBuf : Bool
  deriving DecidableEq, Repr, Inhabited

def LineD.render (d : LineD) : Text := d.indent ++ d.slice ++ d.pen

/-- the reassembly loop (wrap.rs:247-291). `nPrev` = `lines.len()` on entry of this iteration. -/
def reassemble (o : Opts) (line : Text) : List (List Word) → Nat → Nat → Option (List LineD)
  | [], _, _ => some []
  | g :: gs, idx, n =>
    match g.getLast? with
    | none =>
      -- an empty paragraph still carries its indent (`Cow::from("")` when the indent is empty)
      let indent := if n = 0 then o.initialIndent else o.subsequentIndent
      match reassemble o line gs idx (n + 1) with
      | some r => some ({ indent := indent, start := idx, len := 0, slice := [], pen := [],
                          borrowed := indent.isEmpty, inBuf := false } :: r)
      | none => none
    | some last =>
      let total := (g.map fun w => blen w.word + blen w.ws).sum
      if total < blen last.ws then none            -- `usize` underflow
      else
        let len := total - blen last.ws
        let indent := if n = 0 then o.initialIndent else o.subsequentIndent
        match slice? line idx (idx + len), reassemble o line gs (idx + len + blen last.ws) (n + 1) with
        | some s, some r =>
          some ({ indent := indent, start := idx, len := len, slice := s, pen := last.pen,
                  borrowed := indent.isEmpty && last.pen.isEmpty, inBuf := true } :: r)
        | _, _ => none

/-- the fragment pipeline of the slow path (wrap.rs:228-243) -/
def pipeline (env : Env) (o : Opts) (line : Text) (subsequentWidth : Nat) : Option (List Word) :=
  match findWords env o.sep line with
  | none => none
  | some ws =>
    match splitWords env o.splitter ws with
    | none => none
    | some sw =>
      if o.breakWords then
        let bw := breakWords env.cw subsequentWidth sw
        if o.initialIndent.isEmpty then some bw else some (Word.from env.cw [] :: bw)
      else some sw

def wrapSingleLineSlow (env : Env) (mo : MinimaOracle α) (o : Opts) (line : Text) (nPrev : Nat) :
    Option (List LineD) :=
  let initialWidth := o.width - displayWidth env.cw o.initialIndent
  let subsequentWidth := o.width - displayWidth env.cw o.subsequentIndent
  match pipeline env o line subsequentWidth with
  | none => none
  | some words =>
    -- the first line of this paragraph carries the initial indent only if it is the very first
    -- line of the output
    let firstLineWidth := if nPrev = 0 then initialWidth else subsequentWidth
    match wrapAlg mo o.alg words [firstLineWidth, subsequentWidth] with
    | none => none
    | some groups => reassemble o line groups 0 nPrev

def wrapSingleLine (env : Env) (mo : MinimaOracle α) (o : Opts) (line : Text) (nPrev : Nat) :
    Option (List LineD) :=
  let indent := if nPrev = 0 then o.initialIndent else o.subsequentIndent
  if blen line < o.width ∧ indent.isEmpty then
    let t := trimEndSp line
    some [{ indent := [], start := 0, len := blen t, slice := t, pen := [], borrowed := true, inBuf := true }]
  else wrapSingleLineSlow env mo o line nPrev

/-- the `for line in text.split(..)` loop; `off` = byte offset of the paragraph in `text` -/
def wrapParas (endingLen : Nat) (single : Text → Nat → Option (List LineD)) :
    List Text → Nat → Nat → Option (List LineD)
  | [], _, _ => some []
  | p :: ps, off, nPrev =>
    match single p nPrev with
    | none => none
    | some ls =>
      match wrapParas endingLen single ps (off + blen p + endingLen) (nPrev + ls.length) with
      | some r => some (ls.map (fun d => { d with start := d.start + off }) ++ r)
      | none => none

/-- `textwrap::wrap`, as line descriptors (start offsets relative to `text`) -/
def wrapD (env : Env) (mo : MinimaOracle α) (o : Opts) (text : Text) : Option (List LineD) :=
  wrapParas (blen o.lineEnding.str) (wrapSingleLine env mo o) (splitEnding o.lineEnding text) 0 0

/-- `textwrap::wrap` -/
def wrap (env : Env) (mo : MinimaOracle α) (o : Opts) (text : Text) : Option (List Text) :=
  (wrapD env mo o text).map (·.map LineD.render)

/-- `fill_slow_path` -/
def fillSlow (env : Env) (mo : MinimaOracle α) (o : Opts) (text : Text) : Option Text :=
  (wrap env mo o text).map (joinWith o.lineEnding.str)

/-- `textwrap::fill` -/
def fill (env : Env) (mo : MinimaOracle α) (o : Opts) (text : Text) : Option Text :=
  if blen text < o.width ∧ ¬ text.contains LF ∧ o.initialIndent.isEmpty then some (trimEndSp text)
  else fillSlow env mo o text

/-- replace the byte at offset `n` by `'\n'` provided that byte is a one-byte char (`bytes[idx] =
    b'\n'` followed by `String::from_utf8(..).unwrap()`): `none` if `n` is out of range (index
    panic) or inside/at a multi-byte char (`from_utf8` fails). -/
def setNewlineAt : Text → Nat → Option Text
  | [], _ => none
  | c :: cs, 0 => if c.utf8Size = 1 then some (LF :: cs) else none
  | c :: cs, n + 1 =>
    if c.utf8Size ≤ n + 1 then (setNewlineAt cs (n + 1 - c.utf8Size)).map (c :: ·) else none

/-- indices pushed for one paragraph (fill.rs:131-141): all groups but the last -/
def inplaceIndices : List (List Word) → Nat → Option (List Nat)
  | [], _ => some []
  | [_], _ => some []
  | g :: g2 :: gs, lineOffset =>
    let lo := lineOffset + (g.map fun w => blen w.word + blen w.ws).sum
    if lo = 0 then none                                  -- `line_offset - 1` underflows
    else (inplaceIndices (g2 :: gs) lo).map ((lo - 1) :: ·)

def inplaceParas (α : Type) [CostNum α] (cw : Char → Nat) (width : Nat) : List Text → Nat → Option (List Nat)
  | [], _ => some []
  | p :: ps, offset =>
    let words := findWordsAscii cw p
    let groups := wrapFirstFit (fragOf (α := α)) words [CostNum.ofNat width]
    match inplaceIndices groups offset, inplaceParas α cw width ps (offset + blen p + 1) with
    | some a, some b => some (a ++ b)
    | _, _ => none

/-- `textwrap::fill_inplace` -/
def fillInplace (α : Type) [CostNum α] (cw : Char → Nat) (text : Text) (width : Nat) : Option Text :=
  match inplaceParas α cw width (splitLF text) 0 with
  | none => none
  | some idxs => idxs.foldl (fun acc i => acc.bind (setNewlineAt · i)) (some text)

end

end TW

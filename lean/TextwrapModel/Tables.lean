/-
  Tables: the concrete environment built from the regenerated tables
  (`Gen/TablesUnicode.lean`, `Gen/TablesCrude.lean` — rewritten by every run from the running
  crate and toolchain).
-/
import TextwrapModel.Ansi
import TextwrapModel.Gen.Tables
namespace TW

/-- `ch_width` with the `unicode-width` feature -/
def cwUnicode (c : Char) : Nat := lookupRuns Gen.widthRunsUnicode c.toNat 0
/-- `ch_width` without it -/
def cwCrude (c : Char) : Nat := lookupRuns Gen.widthRunsCrude c.toNat 0
/-- `char::is_alphanumeric` -/
def isAlnumStd (c : Char) : Bool := lookupRuns Gen.alnumRuns c.toNat 0 == 1
/-- `char::is_whitespace` -/
def isWsStd (c : Char) : Bool := Gen.wsList.contains c.toNat

end TW

/-
  Tables: the concrete environment built from the regenerated tables
  (`Gen/TablesUnicode.lean`, `Gen/TablesCrude.lean` — rewritten by every run from the running
  crate and toolchain).
-/
import TextwrapModel.Ansi
import TextwrapModel.Gen.Tables
import TextwrapModel.Linebreak
namespace TW

/-- `ch_width` with the `unicode-width` feature -/
def cwUnicode (c : Char) : Nat := lookupRuns Gen.widthRunsUnicode c.toNat 0
/-- `ch_width` without it -/
def cwCrude (c : Char) : Nat := lookupRuns Gen.widthRunsCrude c.toNat 0
/-- `char::is_alphanumeric` -/
def isAlnumStd (c : Char) : Bool := lookupRuns Gen.alnumRuns c.toNat 0 == 1
/-- `char::is_whitespace` -/
def isWsStd (c : Char) : Bool := Gen.wsList.contains c.toNat

end TW

namespace TW

/-- the tables of `unicode_linebreak` as regenerated from the crate cargo resolved (class of
    every scalar value from `break_property`, pair table and bit constants from its sources) -/
def lbTables : LbTables where
  pair st k := (Gen.lbPair.getD st []).getD k 0
  cls c := lookupRuns Gen.lbClassRuns c.toNat 0
  allowed v := v &&& Gen.lbAllowedBit != 0
  mandatory v := v &&& Gen.lbMandatoryBit != 0
  next v := v &&& (255 ^^^ (Gen.lbAllowedBit ||| Gen.lbMandatoryBit))
  sot := Gen.lbSot
  eot := Gen.lbEot
  zwj := Gen.lbZwj

end TW

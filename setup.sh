#!/bin/sh
# Build the framework from files on disk only (offline).
set -e
cd "$(dirname "$0")"
exec ./check --setup
